// libFuzzer target for C09: bytes -> "DTSTART-value\nRRULE-text"; runs the direct filler call on an
// exact 128-slot block and the full parser/stream path; oracle: no sanitizer report, no timeout
// (libFuzzer -timeout), filler result within 64 slots and within COUNT.
#include "sut.h"
#include <cstdio>
#include <cstdlib>
#include <cstring>
#include <string>

extern "C" int LLVMFuzzerTestOneInput(const uint8_t *data, size_t size) {
	if (size < 10 || size > 600) return 0;
	sut_reset();
	std::string s((const char *)data, size);
	for (char &c : s) if (c == '\0') c = ' ';
	size_t nl = s.find('\n'); if (nl == std::string::npos) return 0;
	std::string dt = s.substr(0, nl), rule = s.substr(nl + 1);
	for (char &c : rule) if (c == '\n' || c == '\r') c = ';';
	for (char &c : dt) if (c == '\r') c = ' ';
	sut_inst_t proto;
	char *d = strdup(dt.c_str());
	bool ok = sut_dt_strp(d, &proto) > 0 && proto.y != 0;
	free(d);
	if (ok) {
		int cnt = -1; char *r = strdup(rule.c_str());
		int n = sut_fill(r, proto, &cnt);
		free(r);
		if (n > 64 || (cnt > 0 && n > cnt)) { fprintf(stderr, "C09-ORACLE: filler reports %d results (64 slots, COUNT %d)\n", n, cnt); __builtin_trap(); }
	}
	std::string ics = "BEGIN:VCALENDAR\nBEGIN:VEVENT\nUID:f\nSUMMARY:f\nDTSTART:" + dt + "\nRRULE:" + rule + "\nEND:VEVENT\nEND:VCALENDAR\n";
	sut_buf_t b = {nullptr, 0, 0};
	sut_parse_dump(ics.data(), ics.size(), nullptr, 0, 130, SUT_F_NO_ATTRS, &b);
	sut_buf_free(&b);
	return 0;
}
