// libFuzzer target for C10: bytes -> (partition seed, calendar bytes); the oracle is inside:
// the instruction dump of the chunked feed must equal that of the all-at-once feed.
#include "fuzzcommon.hpp"
#include "sut.h"
#include <cstdio>
#include <cstdlib>
#include <cstring>

static unsigned long n_exec, n_ins;

extern "C" int LLVMFuzzerTestOneInput(const uint8_t *data, size_t size) {
	if (size < 3) return 0;
	sut_reset();                        // nothing may leak between iterations
	unsigned seed = data[0] | (data[1] << 8);
	const char *bytes = (const char *)data + 2; size_t n = size - 2;
	std::vector<size_t> ch = fz::chunks_from_seed(seed, n);
	sut_buf_t a = {nullptr, 0, 0}, b = {nullptr, 0, 0};
	int na = sut_parse_dump(bytes, n, nullptr, 0, 3, SUT_F_DUR, &a);
	sut_parse_dump(bytes, n, ch.data(), ch.size(), 3, SUT_F_DUR, &b);
	n_exec++; if (na > 0) n_ins++;
	bool same = a.n == b.n && (a.n == 0 || memcmp(a.p, b.p, a.n) == 0);
	if (!same) {
		fprintf(stderr, "C10-ORACLE: dumps differ between all-at-once and chunked feed (seed %u)\n--- all at once\n%.600s\n--- chunked\n%.600s\n", seed, a.p ? a.p : "", b.p ? b.p : "");
		fprintf(stderr, "C10-COUNTERS: exec=%lu with_instructions=%lu\n", n_exec, n_ins);
		__builtin_trap();
	}
	sut_buf_free(&a); sut_buf_free(&b);
	return 0;
}
