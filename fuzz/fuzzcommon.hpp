// shared by the libFuzzer targets: input decoding (kept in sync with lib/fuzz.py)
#pragma once
#include <cstdint>
#include <cstddef>
#include <string>
#include <vector>

namespace fz {
// data = [2 bytes partition seed][payload]
inline std::vector<size_t> chunks_from_seed(unsigned seed, size_t n) {
	static const unsigned MAXC[] = {1, 2, 7, 64, 4096};
	unsigned maxc = MAXC[seed % 5];
	uint32_t st = seed * 2654435761u + 12345u;
	std::vector<size_t> ch; size_t pos = 0;
	while (pos < n) { st = st * 1664525u + 1013904223u; size_t c = 1 + (st >> 16) % maxc; if (c > n - pos) c = n - pos; ch.push_back(c); pos += c; }
	return ch;
}
}
