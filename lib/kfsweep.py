#!/usr/bin/env python3
"""development aid: replay every `fixed:` entry (and regression replays) against another tree
(VERIF_REPO=/tmp/orig) — each should FAIL there.  usage: kfsweep.py /tmp/orig [PROP...]"""
import os, sys, subprocess, glob
sys.path.insert(0, '/verif')
os.environ['VERIF_REPO'] = sys.argv[1]
from lib import kf
props = sys.argv[2:]
ents = [e for e in kf.load() if e.state == 'fixed' and (not props or e.prop in props)]
bad = 0
for e in ents:
    p = subprocess.run(['/verif/check', e.prop, '--replay', e.replay], stdout=subprocess.PIPE, stderr=subprocess.STDOUT, text=True, env=dict(os.environ))
    st = 'FAILS-ON-ORIG' if 'VIOLATION' in p.stdout else 'passes-on-orig(!)'
    if 'VIOLATION' not in p.stdout: bad += 1
    print('%-12s %-12s %s' % (e.prop, e.kf, st), (p.stdout.strip().splitlines() or [''])[0][:150] if 'VIOLATION' not in p.stdout else '')
print('%d fixed entries, %d do not fail on the other tree' % (len(ents), bad))
