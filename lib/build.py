"""Build cache: compiles the code under test from /repo's *current working tree*
(keyed by a hash of its sources) and the property drivers (keyed by their own
sources).  Nothing from /repo is copied; objects live under /verif/build."""
import hashlib, os, subprocess, sys, glob, shutil, time
from concurrent.futures import ThreadPoolExecutor

REPO = os.environ.get('VERIF_REPO', '/repo')
V = os.path.dirname(os.path.dirname(os.path.abspath(__file__)))
SRC = os.path.join(REPO, 'src')
BUILD = os.path.join(V, 'build')
GUARD = 'ECHSE_VERIF'

LIBSRC = ['instant', 'range', 'dt-strpf', 'module', 'hash', 'intern', 'state', 'task',
          'strlst', 'bufpool', 'event', 'evstrm', 'evical', 'evrrul', 'evmrul', 'evfilt',
          'tzob', 'scale', 'shift', 'tzraw', 'bitint', 'echse-genuid']
GPERF = ['evical-gp', 'evrrul-gp', 'evmrul-gp', 'evmeth-gp', 'evcomp-gp']
YUCK = ['echse', 'echsd', 'echsx', 'echsq']

CC = 'clang'
CXX = 'clang++'
DEFS = ['-DHAVE_CONFIG_H', '-D_POSIX_C_SOURCE=200809L', '-D_XOPEN_SOURCE=700',
        '-D_DEFAULT_SOURCE', '-D' + GUARD]
SAN = ['-fsanitize=address,bounds', '-fno-sanitize-recover=bounds', '-fno-omit-frame-pointer']
CFLAGS = ['-std=gnu11', '-g', '-O1', '-w'] + DEFS + SAN
CXXFLAGS = ['-std=gnu++17', '-g', '-O1', '-Wall', '-Wno-unused-function', '-Wno-unused-variable'] + SAN
# plain (no sanitizer) variant for the real-process binaries
CFLAGS_PLAIN = ['-std=gnu11', '-g', '-O1', '-w'] + DEFS
# coverage-instrumented variant for the libFuzzer targets
CFLAGS_FUZZ = CFLAGS + ['-fsanitize=fuzzer-no-link']


def _flags(variant):
    return {'asan': CFLAGS, 'plain': CFLAGS_PLAIN, 'fuzz': CFLAGS_FUZZ}[variant]

NJOBS = int(os.environ.get('VERIF_JOBS', str(os.cpu_count() or 4)))


class BuildError(Exception):
    pass


def _run(cmd, **kw):
    p = subprocess.run(cmd, stdout=subprocess.PIPE, stderr=subprocess.STDOUT, text=True, **kw)
    if p.returncode != 0:
        raise BuildError('command failed: %s\n%s' % (' '.join(cmd), p.stdout[-6000:]))
    return p.stdout


def _sha(paths, extra=''):
    h = hashlib.sha256(extra.encode())
    for p in sorted(paths):
        h.update(p.encode())
        try:
            with open(p, 'rb') as f:
                h.update(f.read())
        except OSError:
            h.update(b'<missing>')
    return h.hexdigest()[:16]


def repo_sources():
    out = []
    for pat in ('*.c', '*.h', '*.erf', '*.yuck'):
        out += glob.glob(os.path.join(SRC, pat))
    # generated files are products, not inputs
    gen = {os.path.join(SRC, g + '.c') for g in GPERF} | {os.path.join(SRC, 'version.c')}
    return [p for p in out if p not in gen]


def ensure_generated():
    """Bring gperf / yuck products up to date with the repo's own make rules."""
    if not os.path.exists(os.path.join(SRC, 'config.h')) or not os.path.exists(os.path.join(SRC, 'Makefile')):
        # fresh tree that was never configured: configure + make once
        _run(['sh', '-c', 'cd %s && ./configure >/dev/null 2>&1 && make -j%d >/dev/null 2>&1' % (REPO, NJOBS)])
    need = []
    for g in GPERF:
        c, e = os.path.join(SRC, g + '.c'), os.path.join(SRC, g + '.erf')
        if not os.path.exists(c) or os.path.getmtime(c) < os.path.getmtime(e):
            need.append(g + '.c')
    for y in YUCK:
        c, e = os.path.join(SRC, y + '.yucc'), os.path.join(SRC, y + '.yuck')
        if not os.path.exists(c) or os.path.getmtime(c) < os.path.getmtime(e):
            need.append(y + '.yucc')
    if not os.path.exists(os.path.join(SRC, 'version.c')):
        need.append('version.c')
    if need:
        _run(['make', '-C', SRC] + need)


def tree_hash():
    sut = glob.glob(os.path.join(V, 'sut', '*')) + glob.glob(os.path.join(V, 'sut', 'fakeev', '*'))
    sut = [p for p in sut if os.path.isfile(p)]
    return _sha(repo_sources() + sut, ' '.join(CFLAGS))


def _compile_many(jobs):
    """jobs: list of (cmd, outfile); skip those whose outfile exists."""
    todo = [j for j in jobs if not os.path.exists(j[1])]
    if not todo:
        return
    def one(j):
        tmp = j[1] + '.tmp%d' % os.getpid()
        cmd = [a if a != j[1] else tmp for a in j[0]]
        _run(cmd)
        os.replace(tmp, j[1])
    with ThreadPoolExecutor(NJOBS) as ex:
        for r in ex.map(one, todo):
            pass


def prune(keep):
    """Remove stale per-tree build dirs (disk is limited)."""
    for d in glob.glob(os.path.join(BUILD, 'sut-*')):
        if os.path.basename(d) != keep and time.time() - os.path.getmtime(d) > 1800:
            shutil.rmtree(d, ignore_errors=True)


class Sut:
    """Objects of the code under test for the current tree."""
    def __init__(self):
        ensure_generated()
        self.hash = tree_hash()
        self.dir = os.path.join(BUILD, 'sut-' + self.hash)
        os.makedirs(self.dir, exist_ok=True)
        os.utime(self.dir)
        prune('sut-' + self.hash)

    def lib_objs(self, variant='asan'):
        flags = _flags(variant)
        d = os.path.join(self.dir, variant)
        os.makedirs(d, exist_ok=True)
        jobs = []
        objs = []
        for s in LIBSRC:
            o = os.path.join(d, s + '.o')
            jobs.append(([CC] + flags + ['-I' + SRC, '-c', os.path.join(SRC, s + '.c'), '-o', o], o))
            objs.append(o)
        _compile_many(jobs)
        return objs

    def shim_obj(self, name, variant='asan', extra=()):
        """Compile /verif/sut/<name>.c against the current tree."""
        flags = _flags(variant)
        d = os.path.join(self.dir, variant)
        os.makedirs(d, exist_ok=True)
        o = os.path.join(d, 'shim_' + name + '.o')
        src = os.path.join(V, 'sut', name + '.c')
        _compile_many([([CC] + flags + list(extra) + ['-I' + os.path.join(V, 'sut'), '-I' + SRC, '-c', src, '-o', o], o)])
        return o

    def repo_obj(self, name, variant='asan'):
        """Compile one more source file of the repo (e.g. logger.c) for a harness."""
        flags = _flags(variant)
        d = os.path.join(self.dir, variant)
        os.makedirs(d, exist_ok=True)
        o = os.path.join(d, 'repo_' + name + '.o')
        _compile_many([([CC] + flags + ['-I' + SRC, '-c', os.path.join(SRC, name + '.c'), '-o', o], o)])
        return o

    def program(self, name, variant='plain'):
        """Build one of the repo's own programs (echse, echsx, echsq) from the tree."""
        flags = _flags(variant)
        d = os.path.join(self.dir, variant)
        exe = os.path.join(d, name)
        if os.path.exists(exe):
            return exe
        objs = self.lib_objs(variant)
        srcs = {'echse': ['echse.c', 'version.c'],
                'echsq': ['echsq.c', 'version.c'],
                'echsx': ['echsx.c', 'logger.c', 'version.c'],
                'echsd': ['echsd.c', 'logger.c', 'version.c']}[name]
        jobs, pobjs = [], []
        for s in srcs:
            o = os.path.join(d, 'prog_%s_%s.o' % (name, s[:-2]))
            jobs.append(([CC] + flags + ['-DSTANDALONE', '-DHAVE_VERSION_H', '-I' + SRC, '-c', os.path.join(SRC, s), '-o', o], o))
            pobjs.append(o)
        _compile_many(jobs)
        libs = ['-lm', '-lltdl', '-ldl']
        if name in ('echsx', 'echsd'):
            libs += ['-lev', '-lrt']
        san = SAN if variant == 'asan' else []
        tmp = exe + '.tmp%d' % os.getpid()
        _run([CC] + san + ['-rdynamic', '-o', tmp] + pobjs + objs + libs)
        os.replace(tmp, exe)
        return exe


def driver_obj(prop_src, deps=()):
    """Compile a property driver TU (no echse headers) — cached by content."""
    src = os.path.join(V, 'props', prop_src)
    hdrs = glob.glob(os.path.join(V, 'props', '*.hpp')) + glob.glob(os.path.join(V, 'oracle', '*.hpp')) + \
        glob.glob(os.path.join(V, 'sut', '*.h'))
    h = _sha([src] + hdrs, ' '.join(CXXFLAGS))
    d = os.path.join(BUILD, 'drv')
    os.makedirs(d, exist_ok=True)
    o = os.path.join(d, '%s-%s.o' % (os.path.splitext(prop_src)[0], h))
    if not os.path.exists(o):
        for old in glob.glob(os.path.join(d, os.path.splitext(prop_src)[0] + '-*.o')):
            os.unlink(old)
        _compile_many([([CXX] + CXXFLAGS + ['-I' + os.path.join(V, 'props'), '-I' + os.path.join(V, 'oracle'),
                                            '-I' + os.path.join(V, 'sut'), '-c', src, '-o', o], o)])
    return o


def link_worker(sut, name, drv_objs, shim_objs, with_lib=True, libs=()):
    d = os.path.join(sut.dir, 'bin')
    os.makedirs(d, exist_ok=True)
    tag = _sha(list(drv_objs) + list(shim_objs))
    exe = os.path.join(d, '%s-%s' % (name, tag))
    if os.path.exists(exe):
        return exe
    objs = list(drv_objs) + list(shim_objs) + (sut.lib_objs('asan') if with_lib else [])
    tmp = exe + '.tmp%d' % os.getpid()
    _run([CXX] + SAN + ['-o', tmp] + objs + ['-lrapidcheck', '-lm', '-lltdl', '-ldl', '-lpthread'] + list(libs))
    os.replace(tmp, exe)
    return exe


def fuzz_target(sut, src, shims):
    """Build fuzz/<src> against the coverage-instrumented library of the current tree."""
    d = os.path.join(sut.dir, 'fuzzbin')
    os.makedirs(d, exist_ok=True)
    path = os.path.join(V, 'fuzz', src)
    hdrs = glob.glob(os.path.join(V, 'fuzz', '*.hpp')) + glob.glob(os.path.join(V, 'sut', '*.h'))
    tag = _sha([path] + hdrs)
    exe = os.path.join(d, os.path.splitext(src)[0] + '-' + tag)
    if os.path.exists(exe):
        return exe
    objs = sut.lib_objs('fuzz') + [sut.shim_obj(s, 'fuzz') for s in shims]
    tmp = exe + '.tmp%d' % os.getpid()
    _run([CXX, '-std=gnu++17', '-g', '-O1', '-fsanitize=fuzzer,address', '-I' + os.path.join(V, 'sut'), '-I' + os.path.join(V, 'fuzz'),
          '-o', tmp, path] + objs + ['-lm', '-lltdl', '-ldl'])
    os.replace(tmp, exe)
    return exe


def preload_shim():
    """LD_PRELOAD shim for the real-process checks (C13, C14): sut/xshim.c -> build/xshim-<hash>.so"""
    src = os.path.join(V, 'sut', 'xshim.c')
    so = os.path.join(BUILD, 'xshim-%s.so' % _sha([src]))
    os.makedirs(BUILD, exist_ok=True)
    if not os.path.exists(so):
        tmp = so + '.tmp%d' % os.getpid()
        _run(['gcc', '-shared', '-fPIC', '-O1', '-o', tmp, src, '-ldl'])
        os.replace(tmp, so)
    return so
