"""Per-property specification: which driver / shims, budgets per tier, the
stated non-triviality rule and the assumptions reported in the evidence."""

SPECS = {}

SPECS['C19'] = dict(
    kind='native', drivers=['p_c19.cpp'], shims=['sut_bitint'], with_lib=True,
    level='exploration',
    rule=('six containers (bituint31/63, bitint31/63, bitint383/447) over their documented ranges; ALL insertion '
          'sequences of length 1 and 2, ALL ordered triples of the four header types (and of the two library types in '
          'the thorough tier; quick: all unordered triples in 3 insertion orders) are enumerated completely, plus '
          'rapidcheck sequences of length 4..40 (crossing the 12/14-entry native->bitset switch). Oracle: std::set<int>; '
          'iteration through the callers\' for(it=0; v=next(&it,s), it;) idiom must yield exactly the set, each value once, '
          'and stop; has_bit_p (where offered) must agree on every value of the range. non-trivial = the sequence contains 0, '
          'or only negatives, or a range extreme, or >=13 distinct values; distinct = distinct insertion sequences '
          '(enumeration is duplicate-free by construction, sampled cases are hashed)'),
    assumptions=['values outside the documented range are never inserted (the RRULE reader guards them)',
                 'iteration order is not part of the property'],
    quick=dict(workers=16, cases=1500, size=100, timeout=900),
    thorough=dict(workers=16, cases=60000, size=100, timeout=3600),
)
