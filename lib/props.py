"""Per-property specification: which driver / shims, budgets per tier, the
stated non-triviality rule and the assumptions reported in the evidence."""

SPECS = {}
HOOK_COMMITS = []
HOOKS_NOTE = 'no source hook is needed so far: instrumentation is external (own <ev.h>, #include of echsd.c/echsq.c into harness TUs, macro/link-time interposition)'
EXTRA_ENGINES = []
NOTES = ('Every check rebuilds the code under test from /repo/src (hash-keyed cache under build/), replays known findings and '
         'regression replays first, then runs generated search on 16 workers; see DESIGN.md.')

SPECS['C19'] = dict(
    kind='native', drivers=['p_c19.cpp'], shims=['sut_bitint'], with_lib=True,
    level='exploration', exhaustive_part=True,
    technique='exhaustive enumeration of short insertion sequences + rapidcheck sequences against a std::set model',
    level_text=('All insertion sequences up to length 2 (and triples) over the documented ranges are enumerated completely and longer '
                'ones sampled with shrinking, each judged against std::set; finite part is complete, longer sequences are sampled.'),
    level_note='trusts std::set and the shim sut/sut_bitint.c (which uses the iteration idiom of evrrul.c); ASan+bounds on',
    rule=('six containers (bituint31/63, bitint31/63, bitint383/447) over their documented ranges; ALL insertion '
          'sequences of length 1 and 2, ALL ordered triples of the four header types (and of the two library types in '
          'the thorough tier; quick: all unordered triples in 2 insertion orders) are enumerated completely, plus '
          'rapidcheck sequences of length 4..40 (crossing the 12/14-entry native->bitset switch). Oracle: std::set<int>; '
          'iteration through the callers\' for(it=0; v=next(&it,s), it;) idiom must yield exactly the set, each value once, '
          'and stop; has_bit_p (where offered) must agree on every value of the range. non-trivial = the sequence contains 0, '
          'or only negatives, or a range extreme, or >=13 distinct values; distinct = distinct insertion sequences '
          '(enumeration is duplicate-free by construction, sampled cases are hashed)'),
    assumptions=['values outside the documented range are never inserted (the RRULE reader guards them)',
                 'iteration order is not part of the property'],
    quick=dict(workers=16, cases=1500, size=100, timeout=900),
    thorough=dict(workers=16, cases=60000, size=100, timeout=3600),
)
