"""Per-property specification: which driver / shims, budgets per tier, the
stated non-triviality rule and the assumptions reported in the evidence."""

from . import fuzz as _fz
from . import build

SPECS = {}
HOOK_COMMITS = []
HOOKS_NOTE = 'no source hook is needed so far: instrumentation is external (own <ev.h>, #include of echsd.c/echsq.c into harness TUs, macro/link-time interposition)'
EXTRA_ENGINES = [
    {'name': 'libFuzzer', 'path': 'fuzz/', 'serves_properties': ['C09', 'C10'],
     'kind_free_text': 'coverage-guided in-process fuzzing (clang -fsanitize=fuzzer,address) with the property oracle inside the target; runs after the rapidcheck phase of the same check, crash artifacts are converted into native replay cases and confirmed 3x'},
    {'name': 'echsd harness', 'path': 'sut/sut_echsd.c', 'serves_properties': ['C04', 'C05', 'C06', 'C08', 'C11', 'C12', 'C14'],
     'kind_free_text': 'the unmodified echsd.c #included after a virtual-time <ev.h> with interposed spawn/passwd/checkpoint system calls and a fault plan; driven by scripts the rapidcheck generators write'},
    {'name': 'real-process executor runs', 'path': 'props/xrun.hpp', 'serves_properties': ['C13', 'C14', 'C03'],
     'kind_free_text': 'the echsx (and for C03 the echse) binary built from the tree is run on generated requests; an LD_PRELOAD shim (sut/xshim.c) records sendmail input, alarm(), mkstemp()'},
]
NOTES = ('Every check rebuilds the code under test from /repo/src (hash-keyed cache under build/), replays known findings and '
         'regression replays first, then runs generated search on 16 workers; see DESIGN.md.')

SPECS['C19'] = dict(
    kind='native', drivers=['p_c19.cpp'], shims=['sut_bitint'], with_lib=True,
    level='exploration', exhaustive_part=True,
    technique='exhaustive enumeration of short insertion sequences + rapidcheck sequences against a std::set model',
    level_text=('All insertion sequences up to length 2 (and triples) over the documented ranges are enumerated completely and longer '
                'ones sampled with shrinking, each judged against std::set; finite part is complete, longer sequences are sampled.'),
    level_note='trusts std::set and the shim sut/sut_bitint.c (which uses the iteration idiom of evrrul.c); ASan+bounds on',
    rule=('six containers (bituint31/63, bitint31/63, bitint383/447) over their documented ranges; ALL insertion '
          'sequences of length 1 and 2, ALL ordered triples of the four header types (and of the two library types in '
          'the thorough tier; quick: all unordered triples in 2 insertion orders) are enumerated completely, plus '
          'rapidcheck sequences of length 4..40 (crossing the 12/14-entry native->bitset switch). Oracle: std::set<int>; '
          'iteration through the callers\' for(it=0; v=next(&it,s), it;) idiom must yield exactly the set, each value once, '
          'and stop; has_bit_p (where offered) must agree on every value of the range. non-trivial = the sequence contains 0, '
          'or only negatives, or a range extreme, or >=13 distinct values; distinct = distinct insertion sequences '
          '(enumeration is duplicate-free by construction, sampled cases are hashed)'),
    assumptions=['values outside the documented range are never inserted (the RRULE reader guards them)',
                 'iteration order is not part of the property'],
    quick=dict(workers=16, cases=1500, size=100, timeout=900),
    thorough=dict(workers=16, cases=60000, size=100, timeout=3600),
)

SPECS['C08'] = dict(
    kind='native', drivers=['p_c08.cpp'], shims=['sut_inst', 'sut_strm', 'sut_echsd'], shim_flags={'sut_echsd': ['-I/verif/sut/fakeev']}, repo_srcs=['logger'], with_lib=True,
    level='exploration', exhaustive_part=True,
    technique='exhaustive day-level enumeration + rapidcheck sampling against independent civil-calendar arithmetic (Hinnant)',
    level_text=('Every day of 1901-2099 (all-day, second- and millisecond-resolution instants) is combined with a fixed set of ~330 signed day '
                'deltas and both range ends: add vs calendar, diff(add)=delta, diff reversed, add inverse; epoch conversions of every day at '
                '00:00:00/23:59:59/one more second, each also through echsd.c\'s instant_to_tstamp() (the wake-up time the daemon computes); sampled: arbitrary pairs at ms resolution, fixup of overflowed fields, ordering predicates.'),
    level_note='trusts oracle/civil.hpp (days_from_civil / civil_from_days) and the field-copy shim sut/sut_inst.c; ASan+bounds on',
    rule=('exhaustive: every day 1901-01-01..2099-12-31 x 3 instant kinds (ms, all-sec, all-day) x ~330 signed day deltas (1..62, 7k, month/year '
          'lengths, 2^n, 2^n+-1, distance to both range ends) -> add/diff/inverse; epoch round trip at 3 seconds of every day; sampled (rapidcheck): '
          'add/diff with the true ms distance between two generated instants, fixup of overflowed m/d/H/M/S/ms, to/from epoch (and the daemon wake-up '
          'timestamp when the daemon shim is linked), lt/le/eq vs calendar order with the sentinel rule. non-trivial = |delta|>49 d or delta<0 or the span '
          'crosses a 29 Feb; epoch: Jan/Feb or pre-1970; fixup: some field really overflows; order: same day or mixed kinds. distinct = distinct case text'),
    assumptions=['mixing all-day with timed instants in diff/add is not generated (undefined in the code)',
                 'years 1900/2100 excluded (code documents the y%4 leap rule)',
                 'epoch conversion of all-day instants is not judged (which second an all-day instant denotes is not stated)',
                 'fixup is read mktime-like: months carry into the year first, then days run on from the 1st of that month'],
    quick=dict(workers=16, cases=3000, size=100, timeout=900),
    thorough=dict(workers=16, cases=60000, size=100, timeout=3600),
)

SPECS['C18'] = dict(
    kind='native', drivers=['p_c18.cpp'], shims=['sut_inst'], with_lib=True,
    level='exploration', exhaustive_part=True,
    technique='print/parse round-trip: exhaustive day level + rapidcheck-generated instants, durations and duration spellings',
    level_text=('Every day 1901-2099 in all date spellings and four seconds of each day in all 16 hand-rendered timed spellings plus dt_strf/dt_strf_ical '
                'are enumerated; durations (whole seconds, 0..3 years, log-uniform with 32-bit boundaries) are printed with idiff_strf or spelled with a '
                'generated legal designator combination and must parse to the same milliseconds.'),
    level_note='the expected value is the generated model value itself (round-trip oracle); trusts the shim sut/sut_inst.c; strings are NUL-terminated heap copies',
    rule=('inst: (instant, spelling) with spelling in {dt_strf, dt_strf_ical, hand-rendered with/without dashes, T or space, with/without colons, with/without Z, '
          '.mmm for ms instants}; parse must return the same instant bit-for-bit (incl. all-day/all-sec sentinels) and the end pointer must sit after the text. '
          'dur: whole-second value v and a spelling: idiff_strf(v), or [+]P..: weeks alone, or D/H/M/S with generated carries (e.g. P1DT36H), zero components '
          'optionally written, optional leading +; parse must give v ms. non-trivial: instant on a field boundary (first/last day, month, hour, minute, second); '
          'duration >= 49.8 d or >=3 designators or leading +. distinct = distinct case text'),
    assumptions=['strings are NUL-terminated and passed with their length, as every caller does (the parsers read one byte past len)',
                 'sub-second and negative durations are outside the statement and not generated',
                 'dt_strf_ical has no millisecond field: an ms instant printed that way is expected back at second resolution',
                 'timed spellings always carry seconds'],
    quick=dict(workers=16, cases=8000, size=100, timeout=900),
    thorough=dict(workers=16, cases=200000, size=100, timeout=3600),
)

SPECS['C15'] = dict(
    kind='native', drivers=['p_c15.cpp'], shims=['sut_scale'], with_lib=True,
    level='exploration', exhaustive_part=True,
    technique='complete enumeration of (scale, day) pairs with round-trip, successor, month-length and weekday oracles',
    level_text=('The finite domain (10 Hijri scales x every Gregorian day 1901-2099, plus every Hijri month of the Hijri years 1317-1528) is enumerated '
                'completely on every run; the oracles are the inverse conversion, the successor relation, the civil weekday and the civil day distance.'),
    level_note='trusts oracle/civil.hpp for Gregorian day numbers/weekdays; Hijri side is judged only by internal consistency (no external Hijri table)',
    rule=('forward: every Gregorian day 1901-01-01..2099-12-31 -> each of the 10 Hijri scales: if accepted the image must be a date of that calendar '
          '(1<=m<=12, 1<=d<=ndim), convert back to the same day, carry the civil weekday, and the next Gregorian day must map to the successor date; '
          'reverse: every month of Hijri years 1317..1528: every day 1..ndim converts to consecutive Gregorian days and back, ndim equals the distance '
          'between the first days of adjacent months, months a table does not cover (ndim 0) must be rejected. non-trivial = an accepted conversion '
          '(a rejected one only checks rejection); distinct = (direction, scale, date) triples, enumerated without repetition'),
    assumptions=['coverage of the two table-based calendars is read through echs_scale_ndim()!=0, not hard-coded',
                 'agreement with an external Hijri authority is not part of the statement and not asserted'],
    quick=dict(workers=16, cases=0, size=100, timeout=900),
    thorough=dict(workers=16, cases=0, size=100, timeout=1800),
)

SPECS['C20'] = dict(
    kind='native', drivers=['p_c20.cpp'], shims=['sut_inst'], with_lib=True,
    level='exploration',
    technique='rapidcheck-generated arrays (length classes x order patterns x key multiplicity) judged by order, permutation and stability oracles',
    level_text=('Arrays of instants and of events with unique serials are generated over all length classes around the block-merge thresholds '
                '(0..8193) and six order patterns; the output must be non-decreasing in calendar order with the sentinel rule, a permutation of the '
                'input, and for events keep equal keys in input order. Sampled, not exhaustive.'),
    level_note='trusts the re-implemented calendar order in props/p_c20.cpp and the field-copy shim (exact-size heap arrays under ASan)',
    rule=('case = (instants|events, length n, pattern in {random, presorted, reversed, sawtooth, organ-pipe, nearly sorted}, number of distinct keys, '
          'seed); a grid of 39 boundary lengths (0,1,2,..,31,32,33,63..65,511..513,1023..1025,2047..2049,4095..4097,8191..8193) x 6 patterns x 5 key '
          'multiplicities is always run, then rapidcheck cases with lengths 0..4200; keys mix all-day, all-second and millisecond instants on few days. '
          'non-trivial = n > 32 and fewer distinct keys than elements (so at least one duplicate key); distinct = distinct case descriptor'),
    assumptions=['for bare instants equal keys are bit-identical, so stability is only observable (and only asserted) for events',
                 'the comparison order is the one instant.h documents: all-day before timed on the same day, all-second before millisecond values'],
    quick=dict(workers=16, cases=2500, size=100, timeout=900),
    thorough=dict(workers=16, cases=30000, size=100, timeout=3600),
)

_DAEMON = dict(shims=['sut_strm', 'sut_echsd'], shim_flags={'sut_echsd': ['-I/verif/sut/fakeev']}, repo_srcs=['logger'])

SPECS['C01'] = dict(
    kind='native', drivers=['p_c01.cpp'], shims=['sut_strm'], with_lib=True,
    level='exploration',
    technique='differential testing of generated RRULEs against an independent RFC 5545 reference expander (rapidcheck, shrinking)',
    level_text=('Generated (synchronised DTSTART, RRULE) pairs over all seven FREQs and all RFC-legal BY-part combinations are unrolled through the pull '
                'parser and the task stream one occurrence at a time and compared element-wise with an independent brute-force RFC 5545 expander over a '
                '200-occurrence window (>=3 internal refills). Sampled search with shrinking; finds disagreement classes, cannot prove absence.'),
    level_note='trusts oracle/rrule_ref.hpp (filter formulation, validated on the RFC-only rules the repo tests pin) and oracle/civil.hpp',
    rule=('case = (DTSTART synchronised with the rule, RRULE text, peeks on/off); FREQ uniform over SECONDLY..YEARLY; INTERVAL 1 / 2..12 / large; COUNT in '
          '{1..5, 60..70, 120..135, 190..200} or UNTIL on / just before / between instances; BY parts per the RFC expand/limit table incl. negative and extreme '
          'values, ordinals, BYWEEKNO+BYDAY, BYSETPOS; DTSTART phases biased to 29 Feb, 31st, year ends. non-trivial = reference set has >=2 elements and the '
          'rule has a BY part or INTERVAL>1 or crosses a refill (>64); distinct = hash of (DTSTART, rule text)'),
    assumptions=['DTSTART is synchronised with the rule (RFC 5545 leaves the set undefined otherwise)',
                 'only RFC-legal part/FREQ combinations; WKST=MO; years 1902..2098; DTSTART in UTC (TZID is C07)',
                 'rules whose reference needs >4e6 empty periods between instances are discarded (C09 covers termination)'],
    quick=dict(workers=16, cases=2500, size=100, timeout=1200),
    thorough=dict(workers=16, cases=15000, size=100, timeout=7200),
)

SPECS['C16'] = dict(
    kind='native', drivers=['p_c16.cpp'], shims=['sut_strm'], with_lib=True,
    level='exploration',
    technique='invariant checking over generated events of the full accepted rule language (rapidcheck), streams followed for 3000 pops',
    level_text=('Events over the whole accepted language (all FREQs and BY parts, unsynchronised DTSTART, SHIFT, BYEASTER, SCALE on rule and DTSTART, TZID, '
                '1-3 RRULEs, RDATE) are parsed and their stream popped up to 3000 times; order, DTSTART/UNTIL bounds, COUNT bound and sticky end-of-stream '
                'are asserted. Sampled; needs no reference set, so it also covers the non-RFC extensions.'),
    level_note='bounds are computed by the driver from the generated model; the UTC image of a TZID DTSTART comes from oracle/tzif_ref.hpp',
    rule=('case = one VEVENT with 1-3 generated RRULEs (C01 generator plus SHIFT days/business days/B+/B-, BYEASTER lists, SCALE=HIJRI.*), DTSTART as UTC date-time, '
          'DATE, TZID local time (8 zones) or Hijri DATE, optional RDATE list, UNTIL at an arbitrary later instant or COUNT; invariants: starts strictly increasing, '
          'none before DTSTART (not asserted for Hijri DTSTART or when an RDATE precedes DTSTART), none after the latest UNTIL (when every rule has one and no RDATE), '
          'total <= sum of COUNTs + number of RDATEs (when every rule has COUNT). non-trivial = >=65 occurrences popped (>=1 refill) and an extension part, TZID, SCALE or '
          'time-of-day expansion present; distinct = hash of the calendar text'),
    assumptions=['nothing is asserted about which dates are produced (C01/C17 do that)',
                 'the lower bound for a Hijri DTSTART is not asserted (its Gregorian image is C15\'s subject)'],
    quick=dict(workers=16, cases=2000, size=100, timeout=1500),
    thorough=dict(workers=16, cases=20000, size=100, timeout=7200),
)

SPECS['C09'] = dict(
    kind='native', drivers=['p_c09.cpp'], shims=['sut_strm', 'sut_fill', 'sut_inst'], with_lib=True,
    level='exploration',
    technique='generated hostile-but-accepted RRULE/DTSTART text under ASan+bounds and a CPU budget (rapidcheck), direct filler calls on exact-size buffers; libFuzzer target with the same oracle',
    level_text=('Semantically odd but syntactically accepted rules (maximal BYHOUR x BYMINUTE x BYSECOND products, incongruent INTERVAL/BYxxx, out-of-range ordinals and '
                'DTSTART fields, huge COUNT/INTERVAL, UNTIL before DTSTART, every extension) are run through the fillers on an exact 128-slot heap block and through '
                'parser -> stream -> 300 pops; any sanitizer report, a filler result beyond 64 slots or COUNT, or exceeding 30 CPU seconds (after a 10 s first try) fails.'),
    level_note='the CPU budget is the executable meaning of "bounded work"; leaks are not part of the property (LeakSanitizer off)',
    rule=('case = (DTSTART text incl. out-of-range fields and years 0000/9999, RRULE text assembled from odd value sets); every case runs the direct filler call and the '
          'full parser/stream path in a forked ASan child. non-trivial = the rule has a list, an INTERVAL or a COUNT (not a plain single-value rule); distinct = case text'),
    assumptions=['a budget overrun is only reported after the same case also overran a 3x budget',
                 'what dates come out is not judged here'],
    fuzz=dict(src='f_c09.cpp', shims=['sut_strm', 'sut_fill', 'sut_inst'], corpus='corpus/C09', to_case=_fz.c09_case, seconds={'quick': 25, 'thorough': 900}),
    quick=dict(workers=16, cases=1500, size=100, timeout=1500),
    thorough=dict(workers=16, cases=30000, size=100, timeout=7200),
)

SPECS['C17'] = dict(
    kind='native', drivers=['p_c17.cpp'], shims=['sut_strm'], with_lib=True,
    level='exploration', exhaustive_part=True,
    technique='exhaustive Easter offsets against an independent computus + metamorphic SHIFT relation on echse\'s own unshifted output (rapidcheck)',
    level_text=('BYEASTER=N is enumerated for every N in -366..366 over 1901-2099 against the Meeus/Jones/Butcher computus (complete on every run); '
                'SHIFT is checked by applying an independent implementation of the README semantics to echse\'s own unshifted occurrences of generated '
                'MONTHLY/YEARLY base rules and comparing with the shifted rule (sampled).'),
    level_note='SHIFT semantics follow README.md and the behaviour pinned by the repo tests rrul_50/unroll_05..13 (weekend hop counts as the first business day for plain NB)',
    rule=('easter: rule FREQ=YEARLY;BYEASTER=N from 1901-01-01, every N in -366..366 (733 rules x 199 years), plus generated 3-element lists; owed = '
          '{Easter(y)+N} within 1901..2099 including days falling into the neighbouring year. shift: base rule (MONTHLY/YEARLY with BYMONTHDAY/BYDAY/BYMONTH, INTERVAL=1), '
          'DTSTART 1903..2090, SHIFT = days -366..366 and/or business days -30..30 with 0B/-0B/B+/B- variants, optional COUNT; expected = sorted unique S(o) for o in '
          'echse\'s unshifted stream anchored two years earlier, restricted to >= DTSTART, first COUNT. non-trivial: every case (each compares >= 100 dates); distinct = case text'),
    assumptions=['where the statement\'s wording and the pinned tests could be read differently (does the weekend hop count as a business day?) the oracle follows README + pinned tests',
                 'duplicates produced by two dates shifted onto the same day are compared as a set here (strict ordering is C16\'s subject)'],
    quick=dict(workers=16, cases=400, size=100, timeout=1500),
    thorough=dict(workers=16, cases=10000, size=100, timeout=7200),
)

SPECS['C02'] = dict(
    kind='native', drivers=['p_c02.cpp'], shims=['sut_strm'], with_lib=True,
    level='exploration',
    technique='metamorphic set-algebra relation over echse\'s own streams of generated events with RRULE/RDATE/EXDATE/EXRULE and all duration classes (rapidcheck)',
    level_text=('Generated events combine a base RRULE (or RDATEs only), RDATE lists, EXDATEs chosen from real occurrences, non-occurrences and instants before DTSTART, '
                'an EXRULE, and durations from zero up to the gap minus one unit; the delivered stream must equal (RRULE stream U RDATE) minus (EXDATE U EXRULE stream) '
                'by start, with the baseline streams taken from echse itself so that only the exception algebra is judged.'),
    level_note='baselines (rule-only, rdate-only, exrule-only streams) come from the same library path; C01 judges them',
    rule=('case = (DTSTART date or date-time, base rule among YEARLY..MINUTELY with INTERVAL 1..4 / WEEKLY;BYDAY / MONTHLY;BYMONTHDAY, duration class {none, 1 unit, gap/2, gap-1 unit} '
          'as DURATION or DTEND, 0..6 RDATEs incl. duplicates of rule instances and instants before DTSTART, 0..8 EXDATEs: occurrence starts (incl. consecutive runs), an instant just after '
          'an occurrence, one inside an occurrence\'s span, one before DTSTART; optional EXRULE = same FREQ with a multiple of the INTERVAL). 150 occurrences compared. '
          'non-trivial = at least one exception equals an occurrence start and at least one occurrence survives; distinct = case text'),
    assumptions=['durations reaching the next occurrence (overlapping instances) are outside the quantifier and not generated',
                 'identical starts from RRULE and RDATE are one occurrence (set semantics)'],
    quick=dict(workers=16, cases=400, size=100, timeout=1500),
    thorough=dict(workers=16, cases=20000, size=100, timeout=7200),
)

SPECS['C03'] = dict(
    kind='native', drivers=['p_c03.cpp'], shims=['sut_strm'], with_lib=True, runtime_opts=lambda sut: {'echse': sut.program('echse', 'asan')},
    level='exploration',
    technique='model-based testing of the stream multiplexer: generated constituent streams and peek/pop operation sequences against a sorted-multiset model (rapidcheck)',
    level_text=('1..40 generated constituents (RDATE lists, finite and infinite RRULEs, several RRULEs per event, same and different UIDs with coinciding instants, '
                'streams that end at once) are muxed through echs_evstrm_vmux / the variadic echs_evstrm_mux / vmux_clon and driven by generated peek/pop sequences; '
                'peeks must not consume, pops must be chronological, every model occurrence must be delivered exactly once with identical (start, UID) collapsed, and '
                'end-of-stream must come only after all constituents ended and stay.  About 1 case in 7 goes through the command line instead: the events are spread over 2..3 files (an identical copy of an event may recur in a later file) and `echse unroll f0 f1 ..` of the binary built from the tree must deliver, in order, exactly what it delivers for the single calendar.'),
    level_note='the model is built from clones of the same constituents popped separately (C01/C02 judge those); ties between different UIDs may come in any order',
    rule=('case = (calendar text with n events, operation string over {peek, pop} of length <= 126 (quick) / 606 (thorough), mux flavour); constituents share a few start phases so that '
          'instants coincide; constituents are listed up to 400 occurrences, unfinished ones bound the judged horizon. non-trivial = >=2 constituents, >=1 tie (same instant from two '
          'sources) and >=1 peek after the first pop; distinct = case text'),
    assumptions=['order among different UIDs at the same instant is not asserted',
                 'a duplicate instant inside one RDATE list is one occurrence (RFC 5545 set semantics)'],
    quick=dict(workers=16, cases=2000, size=100, timeout=1500, opts={'maxops': 120}),
    thorough=dict(workers=16, cases=20000, size=100, timeout=7200, opts={'maxops': 600}),
)

SPECS['C10'] = dict(
    kind='native', drivers=['p_c10.cpp'], shims=['sut_strm'], with_lib=True,
    level='exploration',
    technique='differential testing of the pull parser across chunk partitions of generated calendars (rapidcheck) and a libFuzzer target with the same oracle inside',
    level_text=('Generated calendars (1-3 events with all task fields and generated RRULEs, folded at generated columns, CRLF or LF, escapes, VALARM blocks, >2 KiB lines, '
                'METHOD variants, truncated tails, two calendars back to back) are fed all at once and in a dozen partitions (1-byte, 2-byte, after every LF, between CR and LF, '
                'inside folds, after backslashes, around colons, 4096 blocks, random); every instruction dump (verb, UID, all fields, first 12 occurrences with durations) must be identical, '
                'each chunk lives in an exact-size heap block under ASan. fuzz/f_c10 drives the same comparison from coverage-guided bytes.'),
    level_note='what a garbage input means is not judged, only that all partitions agree and nothing overruns or loops; each chunk stays valid until the next push, as in echse/echsd/echsx',
    rule=('case = (calendar bytes, partition); evaluations count (input, partition) pairs. non-trivial = the input yields at least one instruction and the partition cuts inside lines '
          '(not only at line ends / 4096 blocks); distinct = hash of (bytes, partition name)'),
    assumptions=['zero-length pushes are not issued', 'the caller keeps a pushed buffer valid until the next push or the last pull (every caller in the repo does)'],
    fuzz=dict(src='f_c10.cpp', shims=['sut_strm'], corpus='corpus/C10', to_case=_fz.c10_case, seconds={'quick': 25, 'thorough': 900}),
    quick=dict(workers=16, cases=60, size=100, timeout=1500),
    thorough=dict(workers=16, cases=3000, size=100, timeout=7200),
)

SPECS['C05'] = dict(
    kind='native', drivers=['p_c05.cpp'], with_lib=True, **_DAEMON,
    level='exploration',
    technique='model equality for generated task attributes, print/parse round-trip at generated stream positions, and read-back of the queue file the echsd harness writes for several tasks (rapidcheck)',
    level_text=('Part A: generated task models with every README field independently present/absent, calendar-level defaults, shuffled property order, folding and 1-3 '
                'events per calendar are rendered to text and the task read must equal the model. Part B: generated events over the whole input language are consumed for '
                'k in {0,1,2,5,62..66,127,130,200} occurrences, written with echs_task_icalify, re-read, and attributes plus the next 150 (start, duration) pairs compared '
                'with the original stream at that position.'
                ' Part C (1 case in 8): 2..4 generated tasks of one user are submitted to the echsd harness, checkpointed, and the queue file is read back: every task must come back with exactly the attributes it was accepted with (what one task sets must not rub off on another). 1 task in 25 has all text fields near the line limit at once, so that its text exceeds the serialiser\'s 4 KiB buffer.'),
    level_note='the expected attribute dump is computed from the model by props/icalgen.hpp; owner is excluded from the round-trip comparison (the serialisation does not carry it)',
    rule=('attrs case = calendar text + expected canonical dumps; rt case = (calendar text with one event: 1-3 RRULEs from the C01 generator plus SHIFT/BYEASTER/SCALE, optional RDATE, '
          'EXDATE, DURATION; k). non-trivial: attrs: >=3 fields set and one of LOCATION/SHELL/IFILE/MAIL-OUT/UMASK set without SETUID; rt: k>0 and the rule has a BY part. '
          'distinct = case text'),
    assumptions=['values avoid backslash, comma-in-list and colon subtleties whose meaning the statement does not pin',
                 'the spelling of the written text is never compared, only what it reads back as',
                 'DTSTAMP and generated UIDs are not compared'],
    quick=dict(workers=16, cases=1500, size=100, timeout=1500),
    thorough=dict(workers=16, cases=16000, size=100, timeout=7200),
)

SPECS['C07'] = dict(
    kind='native', drivers=['p_c07.cpp'], shims=['sut_strm', 'sut_tz'], with_lib=True,
    level='exploration', exhaustive_part=True,
    technique='sweep of every installed zone and transition against an independent TZif reader (cross-checked with glibc) + generated TZID rules against the RFC reference on the local calendar',
    level_text=('Every distinct file under /usr/share/zoneinfo is read by an independent linear-scan TZif reader; around every transition 1902-2037 and on the 1st/15th of every month '
                'the UTC->local image, the reported offset and, for unambiguous local times, the local->UTC inverse are compared (thorough adds an interleaved second pass that exercises the zone cache). Generated DTSTART;TZID rules (DAILY/WEEKLY/MONTHLY/YEARLY, 20 zones, local hours biased to 0-3 and 23) are unrolled and each '
                'occurrence compared with the zoneinfo meaning of the local time the RFC reference yields.'),
    level_note='trusts oracle/tzif_ref.hpp (its offsets are compared with glibc localtime_r on sampled points of every zone in every run; a disagreement is reported as broken oracle) and oracle/rrule_ref.hpp',
    rule=('sweep point = (zone, UTC second): transitions +-{0,1 s,59 min,1 h,1 d} and noon of the 1st/15th of each month; non-trivial = the local image is unambiguous so both directions are judged. '
          'rule case = (zone, local DTSTART, rule, window of 30..400 occurrences); non-trivial = >=10 occurrences judged and the window has occurrences on both sides of an offset change. '
          'ambiguous / non-existent local times are counted, not judged. distinct = distinct points / case texts'),
    assumptions=['relative to the installed zoneinfo files; instants are limited to 1902..2037 (32-bit data block that echse reads)',
                 'zones are dealt to forked children in batches because tzob.c can intern only 64 zone names per process'],
    quick=dict(workers=16, cases=1500, size=100, timeout=1500),
    thorough=dict(workers=16, cases=6000, size=100, timeout=7200),
)


SPECS['C04'] = dict(
    kind='native', drivers=['p_c04.cpp'], with_lib=True, **_DAEMON,
    level='exploration',
    technique='model-based testing of the unmodified echsd.c under a deterministic virtual-time libev stand-in: generated add/replace/cancel/advance/child-exit histories (rapidcheck)',
    level_text=('echsd.c is compiled unmodified into a harness whose <ev.h> is a virtual-time stand-in reproducing libev\'s periodic semantics (reschedule before callback, fire iff at < now); '
                'posix_spawn is interposed. Generated histories of adds, replaces, cancels, clock advances with wake-ups 1 ms .. 130 s late and child exits are replayed and every '
                'spawn is matched against the occurrences an independent parse of the same event yields: never early, never for the past, late wake-ups collapse to one run, no due '
                'occurrence left unrun, tasks vanish after their last run and last child.'),
    level_note='verdicts are about echsd.c\'s logic under libev\'s documented callback order, not about libev, real time, signals or the kernel',
    rule=('history = up to 60 (thorough 150) ops over 5 task UIDs and 2 users: add/replace with SECONDLY..DAILY rules, RDATE lists incl. duplicates and past instants, DTSTART long before now, '
          'events entirely in the past, cancel, ADV(dt, lateness in {1 ms, 0.4 s, 1 s, 7.5 s, 130 s}), EXITN k (one child exits), EXITALL, RESTART (1 history in 4: final checkpoint, all tasks dropped, queues re-read), DUMP. non-trivial = a late wake-up spanning >=2 occurrences, or a replace/cancel '
          'between arm and fire, or a child exit before a late wake-up; distinct = script text'),
    assumptions=['ordering between different tasks due in the same wake-up is not asserted', 'real sockets, real fork and signals are out of scope of this harness'],
    quick=dict(workers=16, cases=200, size=100, timeout=1500, opts={'maxops': 60}),
    thorough=dict(workers=16, cases=2500, size=100, timeout=7200, opts={'maxops': 150}),
)

SPECS['C12'] = dict(
    kind='native', drivers=['p_c12.cpp'], with_lib=True, **_DAEMON,
    level='exploration',
    technique='model-based testing of the unmodified echsd.c under a virtual-time libev stand-in: generated schedules of tasks with X-ECHS-MAX-SIMUL limits, clock advances and child exits (rapidcheck)',
    level_text=('Same harness as C04. 1..4 tasks with FREQ=SECONDLY rules (period 1..6 s) and limits N in {1,2,3,random 1..62,62,unset} run in one daemon; the generator chooses when the clock advances '
                '(incl. late wake-ups) and which running child exits when, so job durations range from shorter than the period to never ending. Every interposed executor spawn is judged against a '
                'per-task counter of running executions: started iff fewer than N are running, otherwise started with --no-run (the NOT RUN report); tasks past their last occurrence with nothing running must be gone.'),
    level_note='what echsx does with --no-run (the report itself) is echsx code and covered by reading only; N=0 is outside the stated domain',
    rule=('schedule = 1..4 tasks x up to 80 (thorough 400) ops {ADV 1..12 s with lateness 1 ms..7.5 s, EXITN k, EXITALL, DUMP}; non-trivial = some task reached exactly N running executions and had an occurrence '
          'refused; classes: limit-hit, runs-again-after-refusal, other-task-started-while-one-at-limit, N buckets; distinct = script text'),
    assumptions=['a task submitted again keeps the running executions of its previous version in its count (1 schedule in 4 re-submits tasks unchanged while executions are running)'],
    quick=dict(workers=16, cases=600, size=100, timeout=1500, opts={'maxops': 80}),
    thorough=dict(workers=16, cases=6000, size=100, timeout=7200, opts={'maxops': 400}),
)

SPECS['C11'] = dict(
    kind='native', drivers=['p_c11.cpp'], with_lib=True, **_DAEMON,
    level='exploration',
    technique='stateful model-based testing (rapidcheck) of echsd.c\'s command layer against a std::map<UID,(owner,version)>: generated add/replace/cancel/list histories from three peers',
    level_text=('Same harness as C04; requests are fed to feed_cmd()/cmd_ical()/cmd_http() with the peer credentials the socket layer would supply, whole or in small chunks, with 1..3 instructions per request. '
                'After every request the replies (count, UID, code) are compared with what the model says must happen, the daemon\'s task table is dumped and compared with the model (UIDs and owners), '
                'GET /sched, /queue, /u/<uid>/... and ?tuid= listings are compared with the caller\'s tasks, and every executor spawn must carry the owner\'s uid.'),
    level_note='peer credentials are supplied by the harness (SO_PEERCRED itself is not exercised); the daemon runs as root, peers are unprivileged users',
    rule=('history = 5..50 (thorough 120) requests over UID pools {plain names, 255-byte, non-ASCII and punctuation UIDs, groups of 8..12 UIDs whose table keys share 14 low bits}; '
          'non-trivial = (a refused cross-user attempt and a replace and a cancel in one history) or the task table had to grow; distinct = script text'),
    assumptions=['UIDs contain no white space or brackets (trace format of the harness)', 'tasks of these histories never run out of occurrences (retirement is C04)'],
    quick=dict(workers=16, cases=200, size=100, timeout=1500, opts={'maxops': 50}),
    thorough=dict(workers=16, cases=2000, size=100, timeout=7200, opts={'maxops': 120}),
)

SPECS['C06'] = dict(
    kind='native', drivers=['p_c06.cpp'], with_lib=True, **_DAEMON,
    level='exploration',
    technique='fault-injection enumeration over generated command histories (rapidcheck): process death or one failing call at every checkpoint system-call boundary of the unmodified echsd.c, followed by an actual reload in a fresh process',
    level_text=('Same harness as C04; openat/write/close/renameat of the checkpoint path are interposed and numbered. For every generated history the session is first run without fault, then re-run once per '
                '(system call k, kind in {process dies, ENOSPC, EIO}) for ALL k of the history. After each run every echsq_<uid>.ics in the spool must be a complete calendar, and a fresh process that '
                'reloads the spool must hold, per user, exactly the tasks (UID and owner) acknowledged as of the last completed checkpoint (or as of that user\'s own last completed rename when the '
                'interrupted checkpoint got that far); after a clean shutdown exactly the acknowledged state.'),
    level_note='death of the process, not of the machine: durability of renamed files across power loss (fsync) is outside the property and the harness',
    rule=('history = 3..24 (thorough 50) ops of 4 users (root included; 1 history in 6 has 20 more) over 8 UIDs each: add/replace (1..3 events, plain/MAX-SIMUL/long DESCRIPTION/mail attributes), cancel, CHK (timer checkpoint), GET /queue, final SHUT or CHK; '
          '1 in 6 histories floods the 16-slot dirty set; every history is run under every fault point (evidence.extra.fault_runs counts sessions); non-trivial = the history has >= 8 checkpoint system calls'),
    assumptions=['tasks are YEARLY rules in the future (no retirement during the history)', 'a checkpoint operation that saw a failing call is not counted as completed'],
    quick=dict(workers=16, cases=5, size=100, timeout=1500, opts={'maxops': 24, 'kinds': 2}),
    thorough=dict(workers=16, cases=40, size=100, timeout=7200, opts={'maxops': 50}),
)


def _xrun_opts(sut):
    return {'echsx': sut.program('echsx', 'plain'), 'shim': build.preload_shim()}


SPECS['C13'] = dict(
    kind='native', drivers=['p_c13.cpp'], with_lib=False, runtime_opts=_xrun_opts,
    level='exploration',
    technique='property-based testing of the real echsx(1) process built from the tree (rapidcheck-generated execution requests; LD_PRELOAD shim records sendmail input, mkstemp and alarm)',
    level_text=('The echsx binary is rebuilt from the working tree and run on generated VTODO requests: each of the 20 documented {stdout file, stderr file, same file, mail-out, mail-err} rows in turn x '
                'stdout/stderr sizes from 0 to 700 kB (beyond pipe capacity), written concurrently, x exit codes and fatal signals x shell, umask, stdin file, mail-run, attendee. The job records how it was run '
                '(run count, cwd, umask, /proc/$$/exe, stdin copy); stdout and stderr use disjoint alphabets so that every output file and the recorded mail body can be projected back onto the two streams and '
                'compared byte for byte; logged mkstemp names must be gone; the journal must carry the true exit status or signal and times bracketing the run.'),
    level_note='echsx runs without sanitizers (plain build) under an LD_PRELOAD shim; setuid/setgid are exercised with the uid the check runs as; wall-clock is used only to bracket journal times (+-1 s)',
    rule=('case = (row 1..20 cycled, osize, esize in {0,1,17,4096,65536,65537,200000,700000} or random <= 300000, exit 0 / 1..255 / signal in {TERM,KILL,SEGV,ABRT,INT}, sh|bash, umask, ifile, mailrun, attendee, concurrent writers); '
          'non-trivial = more than 64 KiB of output or a non-zero end; distinct = case text'),
    assumptions=['/bin/sh and /bin/bash exist and differ (dash vs bash)'],
    quick=dict(workers=16, cases=60, size=100, timeout=1500),
    thorough=dict(workers=16, cases=1500, size=100, timeout=7200),
)

SPECS['C14'] = dict(
    kind='native', drivers=['p_c14.cpp'], with_lib=True, **_DAEMON, runtime_opts=_xrun_opts,
    level='exploration',
    technique='end-to-end property-based testing over generated limits: serialiser -> echsd harness -> the real echsx process with alarm() logged and scaled by an LD_PRELOAD shim (rapidcheck)',
    level_text=('For each generated limit (DTEND, DURATION in ISO forms with weeks/days/hours/minutes/seconds and combinations, or DUE) the user event is serialised the way echsq sends it, submitted to the '
                'echsd harness, and the VTODO echsd hands to the executor is (a) checked to carry the limit as an RFC 5545 duration by an independent parser and (b) fed verbatim (only uid/gid, directory and '
                'job text replaced) to the echsx binary built from the tree. The shim logs the seconds passed to alarm() -- they must equal the limit (+1 s rounding) -- and scales the timer so that the kill '
                'of a long job (X-SIGNAL in the journal, lifetime) and the undisturbed end of a short job are observed for limits up to weeks; overdue DUE requests must not run the job.'),
    level_note='the SIGALRM->SIGXCPU path runs for real but on a scaled timer (limit -> about 0.5 s, the long job would end by itself after 4 s); no wall-clock measurement is a verdict: the logged alarm() value and the X-SIGNAL journal field are',
    rule=('case = (form in {dtend, dura, due}, limit 1 s .. ~17 days, ISO spelling, long or short job); non-trivial = every case that reaches the executor; classes: form, limit bucket, killed-by-deadline / finished-early / overdue-refused'),
    assumptions=['DUE is exercised on echsx only (echsd never writes DUE)', 'uid/gid, working directory and job text of the request are replaced by ones valid in the sandbox'],
    quick=dict(workers=16, cases=40, size=100, timeout=1500),
    thorough=dict(workers=16, cases=600, size=100, timeout=7200),
)
