#!/usr/bin/env python3
"""shrinkscript.py PROP FILE [OUT] -- development aid: op-level delta debugging of a daemon script
(the case format of C04/C06/C11/C12) keeping the normalised failure message the same."""
import json, os, re, subprocess, sys, tempfile
sys.path.insert(0, os.path.dirname(os.path.dirname(os.path.abspath(__file__))))
from lib import build, props, runner


def ops_of(txt):
    ops, lines, i = [], txt.split('\n'), 0
    pos = 0
    while pos < len(txt):
        e = txt.find('\n', pos)
        if e < 0:
            e = len(txt)
        ln = txt[pos:e]
        if ln.startswith('SUBMIT '):
            n = int(ln.split()[3])
            ops.append(txt[pos:e + 1 + n + 1])
            pos = e + 1 + n + 1
        else:
            if ln:
                ops.append(ln + '\n')
            pos = e + 1
    return ops


def norm(m):
    m = re.sub(r'job\d+', 'jobN', m)
    m = re.sub(r't=\+?[-\d.]+', 't=T', m)
    m = re.sub(r'[+-]?\d+\.\d+', 'T', m)
    m = re.sub(r'0x[0-9a-f]+', 'ADDR', m)
    return m[:90]


def main():
    prop, path = sys.argv[1], sys.argv[2]
    out = sys.argv[3] if len(sys.argv) > 3 else path + '.min'
    spec = props.SPECS[prop]
    sut = build.Sut()
    drv = [build.driver_obj(s) for s in spec['drivers']]
    shims = [sut.shim_obj(s, extra=spec.get('shim_flags', {}).get(s, ())) for s in spec.get('shims', [])]
    shims += [sut.repo_obj(s) for s in spec.get('repo_srcs', [])]
    exe = build.link_worker(sut, prop.lower(), drv, shims, with_lib=spec.get('with_lib', True), libs=spec.get('libs', ()))
    txt = open(path, newline='').read()
    try:
        txt = json.loads(txt)['case']
    except Exception:
        pass
    tmp = tempfile.NamedTemporaryFile('w', suffix='.json', delete=False).name

    def run(ops):
        json.dump({'case': ''.join(ops)}, open(tmp, 'w'))
        st, msg = runner.run_replay(exe, tmp)
        return norm(msg) if st == 'fail' else None
    ops = ops_of(txt)
    want = run(ops)
    if not want:
        print('does not fail'); return 1
    print('target:', want)
    def sweep(n):
        nonlocal ops
        i, changed = 0, False
        while i < len(ops):
            cand = ops[:i] + ops[i + n:]
            if cand and run(cand) == want:
                ops, changed = cand, True
            else:
                i += n
        return changed
    n = max(1, len(ops) // 2)
    while n > 1:
        sweep(n)
        n //= 2
    while sweep(1):
        pass
    open(out, 'w', newline='').write(''.join(ops))
    os.unlink(tmp)
    print('%d ops -> %s' % (len(ops), out))
    return 0


if __name__ == '__main__':
    sys.exit(main())
