"""known_findings.txt — committed, never written at run time.

  open: property=C01 kf=KF-C01-003 replay=replays/C01/KF-C01-003.json class=<name> <what fails>
  fixed: property=C08 <commit> <what failed> (kf=KF-C08-001 replay=replays/C08/KF-C08-001.json)
"""
import os, re

V = os.path.dirname(os.path.dirname(os.path.abspath(__file__)))
FILE = os.path.join(V, 'known_findings.txt')


class Entry:
    def __init__(self, state, prop, kf, replay, cls, text, commit=None):
        self.state, self.prop, self.kf, self.replay, self.cls, self.text, self.commit = \
            state, prop, kf, replay, cls, text, commit

    def __repr__(self):
        return '<%s %s %s>' % (self.state, self.prop, self.kf)


def load(prop=None):
    out = []
    if not os.path.exists(FILE):
        return out
    for line in open(FILE):
        line = line.strip()
        if not line or line.startswith('#'):
            continue
        m = re.match(r'(open|fixed):\s+property=(\S+)\s+(.*)$', line)
        if not m:
            continue
        state, p, rest = m.groups()
        if prop and p != prop:
            continue
        kf = re.search(r'kf=([\w-]+)', rest)
        rp = re.search(r'replay=([^\s)]+)', rest)
        cl = re.search(r'class=([\w,-]+)', rest)
        commit = None
        if state == 'fixed':
            cm = re.match(r'([0-9a-f]{7,40})\s', rest)
            commit = cm.group(1) if cm else None
        text = re.sub(r'\(?kf=[\w-]+\)?|replay=[^\s)]+\)?|class=[\w,-]+', '', rest).strip()
        out.append(Entry(state, p, kf.group(1) if kf else None,
                         os.path.join(V, rp.group(1)) if rp else None,
                         cl.group(1).split(',') if cl else [], text, commit))
    return out
