"""libFuzzer campaigns: run a target for a wall-clock budget from the committed seed corpus (and an
empty corpus), turn crash artifacts into replay cases of the property's native driver."""
import os, subprocess, glob, shutil, tempfile, re, time
from . import build

V = build.V


def chunks_from_seed(seed, n):
    maxc = [1, 2, 7, 64, 4096][seed % 5]
    st = (seed * 2654435761 + 12345) & 0xffffffff
    ch, pos = [], 0
    while pos < n:
        st = (st * 1664525 + 1013904223) & 0xffffffff
        c = 1 + (st >> 16) % maxc
        c = min(c, n - pos)
        ch.append(c)
        pos += c
    return ch


def c10_case(data):
    if len(data) < 3:
        return None
    seed = data[0] | (data[1] << 8)
    b = data[2:]
    ch = chunks_from_seed(seed, len(b))
    return 'partition=fuzz-%d chunks=%s hex=%s\n' % (seed, ','.join(map(str, ch)), b.hex())


def c09_case(data):
    s = data.decode('latin-1').replace('\0', ' ')
    if '\n' not in s:
        return None
    dt, rule = s.split('\n', 1)
    rule = rule.replace('\n', ';').replace('\r', ';')
    dt = dt.replace('\r', ' ')
    return 'dtstart=:%s rule=%s' % (dt, rule)


def campaign(exe, corpus_dir, seconds, seed, jobs=8, extra=(), dict_file=None):
    """Returns dict(execs, crashes=[paths], cov, corpus_size, log_tail)."""
    work = tempfile.mkdtemp(prefix='fz-')
    corp = os.path.join(work, 'corpus')
    art = os.path.join(work, 'art') + '/'
    os.makedirs(corp)
    os.makedirs(art)
    if corpus_dir and os.path.isdir(corpus_dir):
        for f in os.listdir(corpus_dir):
            shutil.copy(os.path.join(corpus_dir, f), corp)
    env = dict(os.environ)
    env['ASAN_OPTIONS'] = 'detect_leaks=0:allocator_may_return_null=1:max_allocation_size_mb=1024:symbolize=1'
    env['TZ'] = 'UTC'
    cmd = [exe, corp, '-max_total_time=%d' % seconds, '-seed=%d' % (seed or 1), '-timeout=20', '-rss_limit_mb=3000', '-artifact_prefix=' + art,
           '-print_final_stats=1', '-max_len=8192', '-fork=%d' % jobs, '-ignore_crashes=0', '-ignore_timeouts=1', '-ignore_ooms=1'] + list(extra)
    if dict_file:
        cmd.append('-dict=' + dict_file)
    t0 = time.time()
    p = subprocess.run(cmd, stdout=subprocess.PIPE, stderr=subprocess.STDOUT, env=env, cwd=work, timeout=seconds + 300, errors='replace', text=True)
    log = p.stdout
    execs = 0
    m = re.findall(r'#(\d+): cov: (\d+) ft: (\d+) corp: (\d+)', log)
    cov = ft = corp_n = 0
    if m:
        execs, cov, ft, corp_n = map(int, m[-1])
    crashes = sorted(glob.glob(art + 'crash-*') + glob.glob(art + 'leak-*'))
    timeouts = sorted(glob.glob(art + 'timeout-*'))
    return dict(execs=execs, cov=cov, features=ft, corpus=corp_n, crashes=crashes, timeouts=timeouts, work=work, wall=time.time() - t0, log_tail=log[-3000:])
