#!/usr/bin/env python3
"""dbg.py PROP FILE [k=v ...] -- build the worker of PROP for the current tree and replay FILE
(a replay JSON, or a plain text case) with the worker's stderr shown.  Debugging aid only."""
import json, os, subprocess, sys, tempfile
sys.path.insert(0, os.path.dirname(os.path.dirname(os.path.abspath(__file__))))
from lib import build, props, runner

def main():
    prop, path = sys.argv[1], sys.argv[2]
    spec = props.SPECS[prop]
    sut = build.Sut()
    drv = [build.driver_obj(s) for s in spec['drivers']]
    shims = [sut.shim_obj(s, extra=spec.get('shim_flags', {}).get(s, ())) for s in spec.get('shims', [])]
    shims += [sut.repo_obj(s) for s in spec.get('repo_srcs', [])]
    exe = build.link_worker(sut, prop.lower(), drv, shims, with_lib=spec.get('with_lib', True), libs=spec.get('libs', ()))
    txt = open(path, newline='').read()
    tmp = None
    try:
        json.loads(txt)['case']
    except Exception:
        tmp = tempfile.NamedTemporaryFile('w', suffix='.json', delete=False)
        json.dump({'case': txt}, tmp); tmp.close(); path = tmp.name
    extra = []
    for k, v in spec.get('replay_opts', {}).items():
        extra += ['--opt', '%s=%s' % (k, v)]
    for k, v in (spec.get('runtime_opts', lambda s: {})(sut)).items():
        extra += ['--opt', '%s=%s' % (k, v)]
    for kv in sys.argv[3:]:
        extra += ['--opt', kv]
    p = subprocess.run([exe, '--replay', path] + extra, env=runner.env())
    if tmp:
        os.unlink(tmp.name)
    return p.returncode

if __name__ == '__main__':
    sys.exit(main())
