#!/usr/bin/env python3
"""seeded.py [ID ...] [--all-checks] [--tier quick|thorough]

Development aid (not a registered check): for each seeded change under /verif/seeded/<id>/patch.diff apply
it (git apply) to a scratch copy of /repo (so that background runs on /repo are not disturbed; the checks
are pointed at the copy with VERIF_REPO), run the check of the property it targets (and with --all-checks
every check), record which checks report a VIOLATION in seeded/<id>/result.json, and undo it
(git checkout -- .).  The scratch copy lives in /tmp and is removed at the end."""
import json, os, subprocess, sys, time

V = os.path.dirname(os.path.dirname(os.path.abspath(__file__)))
REPO = '/tmp/seedrepo-%d' % os.getpid()


def sh(cmd, **kw):
    return subprocess.run(cmd, stdout=subprocess.PIPE, stderr=subprocess.STDOUT, text=True, **kw)


def clean():
    return sh(['git', '-C', REPO, 'status', '--porcelain', '--untracked-files=no']).stdout.strip() == ''


def main():
    args = [a for a in sys.argv[1:] if not a.startswith('--')]
    allc = '--all-checks' in sys.argv
    tier = 'quick'
    if '--tier' in sys.argv:
        tier = sys.argv[sys.argv.index('--tier') + 1]
        args = [a for a in args if a != tier]
    ids = args or sorted(os.listdir(os.path.join(V, 'seeded')))
    man = json.load(open(os.path.join(V, 'MANIFEST.json')))
    props = [c['property_id'] for c in man['checks']]
    if sh(['git', '-C', '/repo', 'status', '--porcelain', '--untracked-files=no']).stdout.strip():
        print('refusing: /repo has local modifications'); return 2
    sh(['rsync', '-a', '--delete', '/repo/', REPO + '/'])
    env = dict(os.environ, VERIF_REPO=REPO)
    for sid in ids:
        d = os.path.join(V, 'seeded', sid)
        patch = os.path.join(d, 'patch.diff')
        if not os.path.exists(patch):
            continue
        meta = json.load(open(os.path.join(d, 'meta.json')))
        if meta.get('superseded'):
            print('%s: superseded by a later repair, skipped (%s)' % (sid, meta['superseded'][:60])); continue
        benign = meta.get('kind') == 'benign'   # behaviour-preserving change: every check must stay silent
        target = None if benign else meta['property']
        r = sh(['git', '-C', REPO, 'apply', patch])
        if r.returncode != 0:
            print('%s: patch does not apply: %s' % (sid, r.stdout.strip()[:200])); sh(['git', '-C', REPO, 'checkout', '--', '.']); continue
        res = {'target': target, 'tier': tier, 'checks': {}}
        if '--tests' in sys.argv:
            # my own confirmation that the change compiles and the repository's test suite still passes
            b = sh(['sh', '-c', 'make -C %s -j16 >/dev/null 2>&1; make -C %s -j16 >/dev/null 2>&1; make -C %s check 2>&1 | grep -E "^# (PASS|FAIL|ERROR):"' % (REPO, REPO, REPO)])
            res['repo_tests'] = ' '.join(b.stdout.split())
            print('%s: repo tests: %s' % (sid, res['repo_tests']), flush=True)
        try:
            for p in (props if benign else [target] + [q for q in props if q != target] if allc else [target]):
                t0 = time.time()
                c = sh([os.path.join(V, 'check'), p, '--tier', tier], cwd=V, env=env)
                viol = [l for l in c.stdout.splitlines() if l.startswith('VIOLATION')]
                res['checks'][p] = {'exit': c.returncode, 'violations': len(viol), 'wall_s': round(time.time() - t0, 1)}
                if viol:
                    # keep the message of the first failing replay as the demonstration seen by the check
                    f = viol[0].split('replay=')[1].strip()
                    try:
                        res['checks'][p]['message'] = json.load(open(os.path.join(V, f)))['message'][:400]
                    except Exception:
                        pass
                print('%s: %s exit=%d violations=%d (%.0fs)' % (sid, p, c.returncode, len(viol), time.time() - t0), flush=True)
        finally:
            # undo exactly the patch (a blanket checkout would touch tracked build inputs and make automake regenerate)
            if sh(['git', '-C', REPO, 'apply', '-R', patch]).returncode != 0:
                sh(['git', '-C', REPO, 'checkout', '--', '.'])
        res['caught_by'] = sorted(p for p, v in res['checks'].items() if v['exit'] == 1 and v['violations'])
        if benign:
            res['false_alarms'] = res.pop('caught_by') + sorted(p for p, v in res['checks'].items() if v['exit'] not in (0, 1))
        json.dump(res, open(os.path.join(d, 'result.json'), 'w'), indent=1)
    sh(['rm', '-rf', REPO])
    return 0


if __name__ == '__main__':
    sys.exit(main())
