#!/usr/bin/env python3
"""Regenerate MANIFEST.json from lib/props.py (run by hand after editing specs)."""
import json, os, sys
sys.path.insert(0, os.path.dirname(os.path.dirname(os.path.abspath(__file__))))
from lib import props, build

V = build.V
ids = [json.loads(l)['id'] for l in open(os.path.join(V, 'properties.jsonl'))]
checks, na = [], []
for i in ids:
    s = props.SPECS.get(i)
    if not s or s.get('disabled'):
        na.append({'property_id': i, 'reason': (s or {}).get('disabled', 'check not built yet (work in progress; see DESIGN.md section 9)')})
        continue
    checks.append({
        'property_id': i,
        'quick_cmd': './check %s --tier quick' % i,
        'thorough_cmd': './check %s --tier thorough' % i,
        'evidence_file': 'evidence/%s.json' % i,
        'replay_cmd_template': './check %s --replay {path}' % i,
        'engine': s.get('engine', 'rapidcheck + exhaustive enumerators in a fork sandbox'),
        'level_claimed': {'category': s['level'], 'text': s['level_text'], 'design_ref': s.get('design_ref', 'DESIGN.md section 4 ' + i)},
        'level_note': s['level_note'],
        'technique': s['technique'],
    })
m = {
    'version': 1,
    'setup_cmd': './check --setup',
    'hooks': {
        'guard': build.GUARD,
        'enable': 'checks compile /repo/src themselves with -D%s (see lib/build.py); %s' % (build.GUARD, props.HOOKS_NOTE),
        'baseline_off_cmd': 'make -C /repo check',
        'source_commits': props.HOOK_COMMITS,
        'add_only': True,
    },
    'engines': [
        {'name': 'rapidcheck', 'path': 'props/', 'serves_properties': [c['property_id'] for c in checks], 'kind_free_text': 'property-based testing with integrated shrinking; every call into echse runs in a forked ASan child (props/harness.hpp)'},
        {'name': 'exhaustive enumerators', 'path': 'props/', 'serves_properties': [i for i in ids if props.SPECS.get(i, {}).get('exhaustive_part')], 'kind_free_text': 'complete enumeration of finite sub-domains'},
    ] + props.EXTRA_ENGINES,
    'checks': checks,
    'notes': props.NOTES,
    'not_applicable': na,
}
json.dump(m, open(os.path.join(V, 'MANIFEST.json'), 'w'), indent=1)
print('MANIFEST.json: %d checks, %d not_applicable' % (len(checks), len(na)))
