"""Generic runner for native (C++) property workers: replay tier, known-finding
protocol, parallel generated search, merge, evidence, VIOLATION confirmation."""
import json, os, subprocess, sys, time, glob, shutil, tempfile
from concurrent.futures import ThreadPoolExecutor
from . import build, kf

V = build.V
NW = int(os.environ.get('VERIF_WORKERS', str(min(16, os.cpu_count() or 4))))

ASAN_ENV = {
    'ASAN_OPTIONS': 'detect_leaks=0:abort_on_error=0:exitcode=99:allocator_may_return_null=1:'
                    'max_allocation_size_mb=2048:handle_abort=1:symbolize=1:detect_stack_use_after_return=0',
    'UBSAN_OPTIONS': 'print_stacktrace=1:halt_on_error=1',
    'TZ': 'UTC',
}


def env():
    e = dict(os.environ)
    e.update(ASAN_ENV)
    return e


def rundir(prop):
    d = os.path.join(V, 'replays', prop, 'run')
    os.makedirs(d, exist_ok=True)
    return d


def run_replay(exe, path, timeout=600, extra=()):
    """-> 'pass' | 'fail' | 'inconclusive', message"""
    try:
        p = subprocess.run([exe, '--replay', path] + list(extra), stdout=subprocess.PIPE, stderr=subprocess.PIPE,
                           text=True, env=env(), timeout=timeout, errors='replace')
    except subprocess.TimeoutExpired:
        return 'inconclusive', 'replay timed out'
    out = p.stdout.strip().splitlines()
    last = out[-1] if out else ''
    if p.returncode == 0:
        return 'pass', last
    if p.returncode == 1:
        return 'fail', last
    if p.returncode == 3:
        return 'inconclusive', last
    return 'error', (p.stdout + p.stderr)[-2000:]


def write_evidence(prop, tier, seed, level, coverage, assumptions, wall, violations):
    os.makedirs(os.path.join(V, 'evidence'), exist_ok=True)
    ev = {'property_id': prop, 'tier': tier, 'seed': int(seed), 'level': level,
          'coverage': coverage, 'assumptions': assumptions, 'wall_s': round(wall, 2),
          'violations': int(violations)}
    tmp = os.path.join(V, 'evidence', prop + '.json.tmp')
    with open(tmp, 'w') as f:
        json.dump(ev, f, indent=1, sort_keys=False)
        f.write('\n')
    os.replace(tmp, os.path.join(V, 'evidence', prop + '.json'))


class Result:
    def __init__(self):
        self.evaluations = 0
        self.inconclusive = 0
        self.nt = set()
        self.nt_bulk = 0
        self.classes = {}
        self.excluded = {}
        self.extra = {}
        self.samples = []
        self.exhaustive = None
        self.fails = []   # (case_text, message, worker)
        self.survey = {}
        self.notes = []

    def merge(self, js, w):
        self.evaluations += js.get('evaluations', 0)
        self.inconclusive += js.get('inconclusive', 0)
        self.nt_bulk += js.get('nt_bulk', 0)
        self.nt.update(js.get('nt_hashes', []))
        for k, v in js.get('classes', {}).items():
            self.classes[k] = self.classes.get(k, 0) + v
        for k, v in js.get('excluded_known', {}).items():
            self.excluded[k] = self.excluded.get(k, 0) + v
        for k, v in js.get('extra', {}).items():
            self.extra[k] = self.extra.get(k, 0) + v
        self.samples += js.get('samples', [])
        for k, v in js.get('survey', {}).items():
            e = self.survey.setdefault(k, [0, v[1]])
            e[0] += v[0]
        ex = bool(js.get('exhaustive'))
        self.exhaustive = ex if self.exhaustive is None else (self.exhaustive and ex)
        if js.get('fail'):
            self.fails.append((js['fail']['case'], js['fail']['message'], w))


def run_workers(exe, prop, tier, seed, plan, exclude, res, label='', budget_s=None):
    """plan: dict(workers, cases, size, opts{}, timeout)"""
    nw = min(plan.get('workers', NW), NW) if plan.get('workers_cap', True) else plan.get('workers', NW)
    nw = max(1, nw)
    rd = rundir(prop)
    tmpd = tempfile.mkdtemp(prefix='vw-%s-' % prop)
    timeout = plan.get('timeout', 3600)
    procs = []
    for w in range(nw):
        out = os.path.join(tmpd, 'w%d.json' % w)
        ff = os.path.join(tmpd, 'fail%d.json' % w)
        cmd = [exe, '--gen', '--tier', tier, '--seed', str(int(seed) * 1000 + w), '--worker', str(w),
               '--nworkers', str(nw), '--cases', str(plan.get('cases', 100)), '--size', str(plan.get('size', 100)),
               '--out', out, '--fail-file', ff]
        if exclude:
            cmd += ['--exclude', ','.join(sorted(exclude))]
        for k, v in plan.get('opts', {}).items():
            cmd += ['--opt', '%s=%s' % (k, v)]
        e = env()
        e['TMPDIR'] = tmpd
        lf = open(os.path.join(tmpd, 'w%d.log' % w), 'w')
        procs.append((w, subprocess.Popen(cmd, stdout=lf, stderr=subprocess.STDOUT, env=e), out, ff, lf))
    t0 = time.time()
    for w, p, out, ff, lf in procs:
        left = max(1, timeout - (time.time() - t0))
        try:
            p.wait(timeout=left)
        except subprocess.TimeoutExpired:
            p.kill()
            p.wait()
            res.notes.append('%sworker %d exceeded the wall budget of %ds and was stopped (inconclusive, not a violation)' % (label, w, timeout))
            res.inconclusive += 1
        lf.close()
        if os.path.exists(out):
            try:
                res.merge(json.load(open(out)), w)
            except Exception as ex:
                res.notes.append('%sworker %d result unreadable: %s' % (label, w, ex))
        elif p.returncode not in (0, 1, -9):
            log = open(os.path.join(tmpd, 'w%d.log' % w), errors='replace').read()[-1500:]
            res.notes.append('%sworker %d died rc=%s: %s' % (label, w, p.returncode, log))
            # a fail-file left behind by a dying worker still names the case
        if os.path.exists(ff) and not any(f[2] == w for f in res.fails):
            try:
                js = json.load(open(ff))
                res.fails.append((js['case'], js['message'], w))
            except Exception:
                pass
    shutil.rmtree(tmpd, ignore_errors=True)
    return res


def check_native(prop, spec, tier, seed, replay=None):
    """Returns process exit code."""
    t0 = time.time()
    sut = build.Sut()
    drv = [build.driver_obj(s) for s in spec['drivers']]
    shims = [sut.shim_obj(s, extra=spec.get('shim_flags', {}).get(s, ())) for s in spec.get('shims', [])]
    shims += [sut.repo_obj(s) for s in spec.get('repo_srcs', [])]
    exe = build.link_worker(sut, prop.lower(), drv, shims, with_lib=spec.get('with_lib', True), libs=spec.get('libs', ()))
    if spec.get('prebuild'):
        spec['prebuild'](sut)
    extra_args = []
    for k, v in spec.get('replay_opts', {}).items():
        extra_args += ['--opt', '%s=%s' % (k, v)]
    for k, v in (spec.get('runtime_opts', lambda s: {})(sut)).items():
        extra_args += ['--opt', '%s=%s' % (k, v)]
        spec.setdefault('_rt', {})[k] = v

    if replay:
        st, msg = run_replay(exe, replay, extra=extra_args)
        print('%s: %s %s' % (replay, st, msg))
        if st == 'fail':
            print('VIOLATION property=%s replay=%s' % (prop, replay))
            return 1
        return 0 if st in ('pass', 'inconclusive') else 2

    violations = []
    notes = []
    for old in glob.glob(os.path.join(rundir(prop), 'fail-*.json')) + glob.glob(os.path.join(rundir(prop), 'survey.json')):
        os.unlink(old)
    # ---- 1. replay tier: known findings and regression replays
    entries = kf.load(prop)
    exclude = set()
    kf_paths = set()
    kf_status = []
    for e in entries:
        if e.replay:
            kf_paths.add(os.path.abspath(e.replay))
        if not e.replay or not os.path.exists(e.replay):
            notes.append('known-finding %s has no replay file' % e.kf)
            continue
        st, msg = run_replay(exe, e.replay, extra=extra_args)
        kf_status.append({'kf': e.kf, 'state': e.state, 'replay': st})
        if e.state == 'open':
            if st == 'fail':
                print('KNOWN-FINDING: property=%s %s %s' % (prop, e.kf, e.text))
                exclude.update(e.cls)
            elif st == 'pass':
                notes.append('open finding %s no longer reproduces; its exclusion class is searched again' % e.kf)
            else:
                notes.append('open finding %s replay %s: %s' % (e.kf, st, msg))
                exclude.update(e.cls)
        else:  # fixed: plain regression
            if st == 'fail':
                violations.append(e.replay)
                print('fixed finding %s reproduces again: %s' % (e.kf, msg))
    n_regr = 0
    for f in sorted(glob.glob(os.path.join(V, 'replays', prop, '*.json'))):
        if os.path.abspath(f) in kf_paths:
            continue
        st, msg = run_replay(exe, f, extra=extra_args)
        n_regr += 1
        if st == 'fail':
            violations.append(f)
            print('regression replay fails: %s: %s' % (f, msg))

    # ---- 2. generated search
    res = Result()
    res.notes = notes
    plans = spec[tier] if isinstance(spec[tier], list) else [spec[tier]]
    for i, plan in enumerate(plans):
        plan = dict(plan)
        plan['opts'] = dict(plan.get('opts', {}))
        plan['opts'].update(spec.get('_rt', {}))
        for kv in os.environ.get('VERIF_OPTS', '').split(','):
            if '=' in kv:
                plan['opts'][kv.split('=')[0]] = kv.split('=')[1]
        run_workers(exe, prop, tier, int(seed) + 7919 * i, plan, exclude, res, label=plan.get('label', '') + ' ')

    # ---- 3. confirm failures through the plain replay path
    rd = rundir(prop)
    seen = set()
    todo = []
    for case, msg, w in res.fails:
        if case in seen:
            continue
        seen.add(case)
        path = os.path.join(rd, 'fail-seed%s-w%d.json' % (seed, w))
        with open(path, 'w') as f:
            json.dump({'property': prop, 'case': case, 'message': msg, 'seed': int(seed), 'worker': w, 'tier': tier}, f, indent=1)
            f.write('\n')
        todo.append((path, w))

    def confirm(pw):
        # stop at the first replay that does not fail
        out = []
        for _ in range(3):
            out.append(run_replay(exe, pw[0], extra=extra_args)[0])
            if out[-1] != 'fail':
                break
        return out
    from concurrent.futures import ThreadPoolExecutor
    with ThreadPoolExecutor(8) as ex:
        for (path, w), outcomes in zip(todo, ex.map(confirm, todo)):
            if len(outcomes) == 3 and all(o == 'fail' for o in outcomes):
                violations.append(path)
            else:
                res.notes.append('failure of worker %d did not reproduce 3x through the replay path (%s): counted inconclusive' % (w, outcomes))
                res.inconclusive += 1

    # ---- 4. coverage-guided campaign (libFuzzer) with the same oracle, where a target exists
    fuzz_info = None
    if spec.get('fuzz') and not violations:
        from . import fuzz as fz
        fs = spec['fuzz']
        secs = fs['seconds'][tier]
        fexe = build.fuzz_target(sut, fs['src'], fs['shims'])
        fr = fz.campaign(fexe, os.path.join(V, fs['corpus']), secs, int(seed), jobs=min(NW, 12))
        fuzz_info = {'target': fs['src'], 'seconds': secs, 'executions': fr['execs'], 'coverage_edges': fr['cov'], 'features': fr['features'],
                     'corpus_units': fr['corpus'], 'seed_corpus': fs['corpus'], 'crash_artifacts': len(fr['crashes']), 'timeout_artifacts_ignored': len(fr['timeouts'])}
        res.evaluations += fr['execs']
        for i, cpath in enumerate(fr['crashes'][:5]):
            case = fs['to_case'](open(cpath, 'rb').read())
            if case is None:
                continue
            path = os.path.join(rd, 'fail-fuzz-seed%s-%d.json' % (seed, i))
            with open(path, 'w') as f:
                json.dump({'property': prop, 'case': case, 'message': 'libFuzzer artifact ' + os.path.basename(cpath), 'seed': int(seed), 'tier': tier}, f, indent=1)
            outcomes = [run_replay(exe, path, extra=extra_args)[0] for _ in range(3)]
            if all(o == 'fail' for o in outcomes):
                violations.append(path)
            else:
                res.notes.append('fuzz artifact %s did not reproduce through the sandboxed replay path (%s): inconclusive' % (os.path.basename(cpath), outcomes))
                res.inconclusive += 1
        shutil.rmtree(fr['work'], ignore_errors=True)

    wall = time.time() - t0
    cov = {
        'evaluations': res.evaluations,
        'distinct_nontrivial': len(res.nt) + res.nt_bulk,
        'rule': spec['rule'],
        'samples': res.samples[:24] if res.samples else ['(none)'],
        'classes': dict(sorted(res.classes.items())),
        'excluded_known': res.excluded,
        'inconclusive': res.inconclusive,
        'known_findings': kf_status,
        'regression_replays': n_regr,
        'notes': res.notes,
        'sut_tree_hash': sut.hash,
    }
    if fuzz_info:
        cov['fuzz'] = fuzz_info
    if res.extra:
        cov['extra'] = res.extra
    if res.survey:
        with open(os.path.join(rundir(prop), 'survey.json'), 'w') as f:
            json.dump(dict(sorted(res.survey.items(), key=lambda kv: -kv[1][0])), f, indent=1)
        print('survey: %d failing signatures written to %s' % (len(res.survey), os.path.join(rundir(prop), 'survey.json')))
    if res.exhaustive:
        cov['exhaustive'] = True
    write_evidence(prop, tier, seed, spec['level'], cov, spec['assumptions'], wall, len(violations))
    for n in res.notes:
        print('note: ' + n)
    print('%s %s: evaluations=%d distinct_nontrivial=%d excluded_known=%d inconclusive=%d wall=%.1fs' %
          (prop, tier, res.evaluations, cov['distinct_nontrivial'], sum(res.excluded.values()), res.inconclusive, wall))
    if violations:
        for v in violations:
            print('VIOLATION property=%s replay=%s' % (prop, os.path.relpath(v, V)))
        return 1
    return 0
