#!/usr/bin/env python3
"""development helper: addkf.py fixed|open PROP KF COMMIT_or_CLASS 'what' 'case text' ['message']"""
import json,sys,os
state,prop,kf,cc,what,case=sys.argv[1:7]
msg=sys.argv[7] if len(sys.argv)>7 else what
os.makedirs('/verif/replays/%s'%prop,exist_ok=True)
rp='replays/%s/%s.json'%(prop,kf)
json.dump({'property':prop,'case':case,'message':msg},open('/verif/'+rp,'w'),indent=1)
with open('/verif/known_findings.txt','a') as f:
    if state=='fixed':
        f.write('fixed: property=%s %s %s (kf=%s replay=%s)\n'%(prop,cc,what,kf,rp))
    else:
        f.write('open: property=%s kf=%s replay=%s%s %s\n'%(prop,kf,rp,(' class='+cc) if cc and cc!='-' else '',what))
