#!/usr/bin/env python3
"""importseeds.py SRC_DIR -- development aid: copy sub-agent products <ID>-<n>.{diff,demo.txt,meta.json} into
/verif/seeded/<ID>-<n>/{patch.diff,demonstration.txt,meta.json} (only complete triples, never overwriting)."""
import glob, json, os, shutil, sys
V = os.path.dirname(os.path.dirname(os.path.abspath(__file__)))
src = sys.argv[1]
for d in sorted(glob.glob(os.path.join(src, '*.diff'))):
    sid = os.path.basename(d)[:-5]
    demo, meta = os.path.join(src, sid + '.demo.txt'), os.path.join(src, sid + '.meta.json')
    dst = os.path.join(V, 'seeded', sid)
    if not os.path.exists(meta) or os.path.exists(dst):
        continue
    if not os.path.exists(demo) and 'BEN' not in sid:
        continue
    try:
        m = json.load(open(meta))
    except Exception as e:
        print('skip', sid, e); continue
    os.makedirs(dst)
    shutil.copy(d, os.path.join(dst, 'patch.diff')); (os.path.exists(demo) and shutil.copy(demo, os.path.join(dst, 'demonstration.txt')))
    if m.get('kind') != 'benign':
        m.setdefault('property', sid.split('-')[0])
    m['origin'] = 'sub-agent given only the property text and a scratch worktree'
    json.dump(m, open(os.path.join(dst, 'meta.json'), 'w'), indent=1)
    print('imported', sid)
