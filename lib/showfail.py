#!/usr/bin/env python3
import json,sys,glob
for f in sorted(glob.glob('/verif/replays/%s/run/fail-*.json'%sys.argv[1]))[:int(sys.argv[2]) if len(sys.argv)>2 else 6]:
    d=json.load(open(f)); print(d['case'][:int(sys.argv[3]) if len(sys.argv)>3 else 400],'\n   ::',d['message'][:600])
