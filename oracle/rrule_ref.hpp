// Independent RFC 5545 section 3.3.10 recurrence expander ("filter
// formulation": enumerate every candidate of a period by brute force and keep
// what all BYxxx parts admit).  Shares no code or tables with echse.
// Weeks start on Monday (WKST=MO).  All times UTC, int64 ms since 1970.
#pragma once
#include "civil.hpp"
#include <vector>
#include <string>
#include <algorithm>
#include <set>
#include <sstream>
#include <cstdlib>

namespace rref {

enum Freq { NONE = 0, YEARLY, MONTHLY, WEEKLY, DAILY, HOURLY, MINUTELY, SECONDLY };
static const char *const FREQ_NAME[] = {"NONE", "YEARLY", "MONTHLY", "WEEKLY", "DAILY", "HOURLY", "MINUTELY", "SECONDLY"};
static const char *const WD_NAME[] = {"", "MO", "TU", "WE", "TH", "FR", "SA", "SU"};

struct Rule {
	Freq freq = NONE;
	int interval = 1;
	int count = -1;             // -1: none
	bool has_until = false;
	int64_t until = 0;          // ms, inclusive
	bool until_date = false;    // written as a DATE
	std::vector<int> bymonth, byweekno, byyearday, bymonthday, byhour, byminute, bysecond, bysetpos;
	std::vector<std::pair<int, int>> byday;   // (ordinal or 0, weekday 1=MO..7=SU)
	std::string extra;          // verbatim extension parts (";SHIFT=..", ";BYEASTER=..") — ignored by the reference

	bool has_time_parts() const { return !byhour.empty() || !byminute.empty() || !bysecond.empty(); }
	int nparts() const {
		return !bymonth.empty() + !byweekno.empty() + !byyearday.empty() + !bymonthday.empty() + !byday.empty() +
		       !byhour.empty() + !byminute.empty() + !bysecond.empty() + !bysetpos.empty();
	}
	std::string text() const {
		std::string s = std::string("FREQ=") + FREQ_NAME[freq];
		auto lst = [&](const char *k, const std::vector<int> &v) { if (v.empty()) return; s += std::string(";") + k + "="; for (size_t i = 0; i < v.size(); i++) { if (i) s += ","; s += std::to_string(v[i]); } };
		if (interval != 1) s += ";INTERVAL=" + std::to_string(interval);
		if (count >= 0) s += ";COUNT=" + std::to_string(count);
		if (has_until) s += ";UNTIL=" + civil::fmt_ical(until, until_date);
		lst("BYMONTH", bymonth); lst("BYWEEKNO", byweekno); lst("BYYEARDAY", byyearday); lst("BYMONTHDAY", bymonthday);
		if (!byday.empty()) { s += ";BYDAY="; for (size_t i = 0; i < byday.size(); i++) { if (i) s += ","; if (byday[i].first) s += std::to_string(byday[i].first); s += WD_NAME[byday[i].second]; } }
		lst("BYHOUR", byhour); lst("BYMINUTE", byminute); lst("BYSECOND", bysecond); lst("BYSETPOS", bysetpos);
		s += extra;
		return s;
	}
};

inline int64_t parse_ical_dt(const std::string &s, bool *date_only) {
	int y = 0, m = 0, d = 0, H = 0, M = 0, S = 0;
	if (s.size() >= 15 && s[8] == 'T') { sscanf(s.c_str(), "%4d%2d%2dT%2d%2d%2d", &y, &m, &d, &H, &M, &S); if (date_only) *date_only = false; }
	else { sscanf(s.c_str(), "%4d%2d%2d", &y, &m, &d); if (date_only) *date_only = true; }
	return civil::to_ms(y, (unsigned)m, (unsigned)d, (unsigned)H, (unsigned)M, (unsigned)S);
}

inline bool parse_rule(const std::string &txt, Rule &r) {
	r = Rule();
	std::stringstream ss(txt); std::string kv;
	while (std::getline(ss, kv, ';')) {
		size_t e = kv.find('=');
		if (e == std::string::npos) continue;
		std::string k = kv.substr(0, e), v = kv.substr(e + 1);
		auto ints = [&](std::vector<int> &out) { std::stringstream s2(v); std::string t; while (std::getline(s2, t, ',')) if (!t.empty()) out.push_back(atoi(t.c_str())); };
		if (k == "FREQ") { for (int f = 1; f <= 7; f++) if (v == FREQ_NAME[f]) r.freq = (Freq)f; }
		else if (k == "INTERVAL") r.interval = atoi(v.c_str());
		else if (k == "COUNT") r.count = atoi(v.c_str());
		else if (k == "UNTIL") { r.has_until = true; r.until = parse_ical_dt(v, &r.until_date); }
		else if (k == "BYMONTH") ints(r.bymonth);
		else if (k == "BYWEEKNO") ints(r.byweekno);
		else if (k == "BYYEARDAY") ints(r.byyearday);
		else if (k == "BYMONTHDAY") ints(r.bymonthday);
		else if (k == "BYHOUR") ints(r.byhour);
		else if (k == "BYMINUTE") ints(r.byminute);
		else if (k == "BYSECOND") ints(r.bysecond);
		else if (k == "BYSETPOS") ints(r.bysetpos);
		else if (k == "BYDAY") {
			std::stringstream s2(v); std::string t;
			while (std::getline(s2, t, ',')) {
				if (t.size() < 2) continue;
				std::string wd = t.substr(t.size() - 2); int o = t.size() > 2 ? atoi(t.substr(0, t.size() - 2).c_str()) : 0;
				for (int w = 1; w <= 7; w++) if (wd == WD_NAME[w]) r.byday.push_back({o, w});
			}
		} else r.extra += ";" + kv;
	}
	return r.freq != NONE;
}

struct Result {
	std::vector<int64_t> occ;   // ms; for date-only starts at 00:00
	bool complete = false;      // true: the recurrence set is finite within the horizon and fully listed
	bool gave_up = false;       // too many empty periods scanned: no verdict possible
};

namespace detail {
inline bool in(const std::vector<int> &v, int x) { return std::find(v.begin(), v.end(), x) != v.end(); }
// negative ordinals count from the end of a span of n
inline bool in_neg(const std::vector<int> &v, int x, int n) { for (int a : v) if ((a > 0 ? a : n + 1 + a) == x) return true; return false; }

struct DayCtx { int y; unsigned m, d; int64_t dn; unsigned wd; };
inline DayCtx dayctx(int64_t dn) { civil::YMD q = civil::civil_from_days(dn); return {q.y, q.m, q.d, dn, civil::weekday(dn)}; }

// plain weekday admitted?  (entries with ordinal 0)
inline bool wd_plain(const Rule &r, unsigned wd) { for (auto &p : r.byday) if (p.first == 0 && p.second == (int)wd) return true; return false; }
// any entry (plain or ordinal) naming that weekday, ignoring the ordinal
inline bool wd_any(const Rule &r, unsigned wd) { for (auto &p : r.byday) if (p.second == (int)wd) return true; return false; }
// ordinal test inside [first,last] day span
inline bool wd_ord(const Rule &r, const DayCtx &c, int64_t first, int64_t last) {
	for (auto &p : r.byday) {
		if (p.second != (int)c.wd) continue;
		if (p.first == 0) return true;
		int idx = (int)((c.dn - first) / 7) + 1;                 // this is the idx-th such weekday from the start
		int total = idx + (int)((last - c.dn) / 7);
		if (p.first > 0 ? idx == p.first : idx == total + 1 + p.first) return true;
	}
	return false;
}
// date-level limit filters used by DAILY and finer
inline bool day_limits(const Rule &r, const DayCtx &c, bool use_yearday) {
	if (!r.bymonth.empty() && !in(r.bymonth, (int)c.m)) return false;
	if (!r.bymonthday.empty() && !in_neg(r.bymonthday, (int)c.d, (int)civil::days_in_month(c.y, c.m))) return false;
	if (!r.byday.empty() && !wd_any(r, c.wd)) return false;
	if (use_yearday && !r.byyearday.empty() && !in_neg(r.byyearday, (int)civil::yday(c.y, c.m, c.d), (int)civil::days_in_year(c.y))) return false;
	return true;
}
} // namespace detail

// Expand.  start: DTSTART (ms) and whether it is a DATE.  Stops after `limit`
// occurrences, or when periods start beyond `horizon` (ms), or after
// `max_periods` scanned periods (gave_up).
inline Result expand(const Rule &r, int64_t start, bool date_only, size_t limit, int64_t horizon, uint64_t max_periods = 4000000) {
	using namespace detail;
	Result res;
	const int64_t MS_DAY = civil::MS_DAY;
	const int64_t d0 = civil::floordiv(start, MS_DAY);
	const int64_t tod0 = start - d0 * MS_DAY;
	const DayCtx s0 = dayctx(d0);
	const int H0 = (int)(tod0 / 3600000), M0 = (int)(tod0 / 60000 % 60), S0 = (int)(tod0 / 1000 % 60);
	const int iv = std::max(1, r.interval);
	if (r.count == 0) { res.complete = true; return res; }

	std::vector<int> hours = r.byhour, mins = r.byminute, secs = r.bysecond;
	auto uniq = [](std::vector<int> &v) { std::sort(v.begin(), v.end()); v.erase(std::unique(v.begin(), v.end()), v.end()); };
	uniq(hours); uniq(mins); uniq(secs);

	std::vector<int64_t> period;   // instants of the current period
	uint64_t scanned = 0;
	auto time_expand_day = [&](int64_t dn) {
		if (date_only) { period.push_back(dn * MS_DAY); return; }
		const std::vector<int> one_h{H0}, one_m{M0}, one_s{S0};
		for (int h : (hours.empty() ? one_h : hours)) for (int mi : (mins.empty() ? one_m : mins)) for (int s : (secs.empty() ? one_s : secs))
			period.push_back(dn * MS_DAY + h * 3600000LL + mi * 60000LL + s * 1000LL);
	};

	for (int64_t k = 0;; k++) {
		period.clear();
		int64_t period_start;   // ms, for horizon test
		if (++scanned > max_periods) { res.gave_up = true; return res; }
		switch (r.freq) {
		case YEARLY: {
			// with BYWEEKNO the periods are ISO week-years (the weeks of a year, RFC 5545 p.42), counted from the one DTSTART lies in;
			// such a period may begin up to three days before 1 January
			int Y = (r.byweekno.empty() ? s0.y : (int)civil::iso_week(s0.y, s0.m, s0.d).y) + (int)(k * iv);
			period_start = civil::to_ms(Y, 1, 1) - (r.byweekno.empty() ? 0 : 7 * MS_DAY);
			if (period_start > horizon) { res.complete = true; return res; }
			int64_t j1 = civil::days_from_civil(Y, 1, 1), j2 = civil::days_from_civil(Y, 12, 31);
			int ny = (int)(j2 - j1 + 1);
			std::vector<int64_t> days;
			if (!r.byweekno.empty()) {
				// days belonging to the listed ISO weeks of ISO year Y
				int nw = (int)civil::iso_weeks_in_year(Y);
				for (int64_t dn = j1 - 7; dn <= j2 + 7; dn++) {
					DayCtx c = dayctx(dn); civil::ISOWeek w = civil::iso_week(c.y, c.m, c.d);
					if (w.y != Y || !in_neg(r.byweekno, (int)w.w, nw)) continue;
					if (r.byday.empty() ? c.wd != s0.wd : !wd_any(r, c.wd)) continue;
					if (!r.bymonth.empty() && !in(r.bymonth, (int)c.m)) continue;
					days.push_back(dn);
				}
			} else if (!r.byyearday.empty()) {
				for (int64_t dn = j1; dn <= j2; dn++) {
					DayCtx c = dayctx(dn);
					if (!in_neg(r.byyearday, (int)(dn - j1 + 1), ny)) continue;
					if (!r.bymonth.empty() && !in(r.bymonth, (int)c.m)) continue;
					if (!r.bymonthday.empty() && !in_neg(r.bymonthday, (int)c.d, (int)civil::days_in_month(c.y, c.m))) continue;
					if (!r.byday.empty() && !wd_any(r, c.wd)) continue;
					days.push_back(dn);
				}
			} else if (!r.bymonthday.empty()) {
				for (int64_t dn = j1; dn <= j2; dn++) {
					DayCtx c = dayctx(dn);
					if (!r.bymonth.empty() && !in(r.bymonth, (int)c.m)) continue;
					if (!in_neg(r.bymonthday, (int)c.d, (int)civil::days_in_month(c.y, c.m))) continue;
					if (!r.byday.empty() && !wd_any(r, c.wd)) continue;
					days.push_back(dn);
				}
			} else if (!r.byday.empty()) {
				for (int64_t dn = j1; dn <= j2; dn++) {
					DayCtx c = dayctx(dn);
					if (!r.bymonth.empty()) {
						if (!in(r.bymonth, (int)c.m)) continue;
						int64_t f = civil::days_from_civil(c.y, c.m, 1), l = f + civil::days_in_month(c.y, c.m) - 1;
						if (!wd_ord(r, c, f, l)) continue;
					} else if (!wd_ord(r, c, j1, j2)) continue;
					days.push_back(dn);
				}
			} else {
				std::vector<int> months = r.bymonth.empty() ? std::vector<int>{(int)s0.m} : r.bymonth;
				uniq(months);
				for (int mm : months) if (s0.d <= civil::days_in_month(Y, (unsigned)mm)) days.push_back(civil::days_from_civil(Y, (unsigned)mm, s0.d));
			}
			std::sort(days.begin(), days.end()); days.erase(std::unique(days.begin(), days.end()), days.end());
			for (int64_t dn : days) time_expand_day(dn);
			break; }
		case MONTHLY: {
			int64_t t = (int64_t)s0.y * 12 + (s0.m - 1) + k * iv;
			int Y = (int)(t / 12); unsigned M = (unsigned)(t % 12) + 1;
			period_start = civil::to_ms(Y, M, 1);
			if (period_start > horizon) { res.complete = true; return res; }
			if (!r.bymonth.empty() && !in(r.bymonth, (int)M)) break;
			int64_t f = civil::days_from_civil(Y, M, 1); int nd = (int)civil::days_in_month(Y, M);
			for (int d = 1; d <= nd; d++) {
				DayCtx c = dayctx(f + d - 1);
				if (!r.bymonthday.empty()) { if (!in_neg(r.bymonthday, d, nd)) continue; if (!r.byday.empty() && !wd_any(r, c.wd)) continue; }
				else if (!r.byday.empty()) { if (!wd_ord(r, c, f, f + nd - 1)) continue; }
				else if (d != (int)s0.d) continue;
				time_expand_day(c.dn);
			}
			break; }
		case WEEKLY: {
			int64_t monday = d0 - (s0.wd - 1) + 7 * k * iv;
			period_start = monday * MS_DAY;
			if (period_start > horizon) { res.complete = true; return res; }
			for (int i = 0; i < 7; i++) {
				DayCtx c = dayctx(monday + i);
				if (r.byday.empty() ? c.wd != s0.wd : !wd_any(r, c.wd)) continue;
				if (!r.bymonth.empty() && !in(r.bymonth, (int)c.m)) continue;
				time_expand_day(c.dn);
			}
			break; }
		case DAILY: {
			int64_t dn = d0 + k * iv;
			period_start = dn * MS_DAY;
			if (period_start > horizon) { res.complete = true; return res; }
			DayCtx c = dayctx(dn);
			if (!day_limits(r, c, false)) break;
			time_expand_day(dn);
			break; }
		case HOURLY: case MINUTELY: case SECONDLY: {
			const int64_t unit = r.freq == HOURLY ? 3600000LL : r.freq == MINUTELY ? 60000LL : 1000LL;
			// period index counted from DTSTART's own period
			int64_t p0 = civil::floordiv(start, unit);
			int64_t p = p0 + k * iv;
			period_start = p * unit;
			if (period_start > horizon) { res.complete = true; return res; }
			int64_t dn = civil::floordiv(period_start, MS_DAY);
			DayCtx c = dayctx(dn);
			if (!day_limits(r, c, true)) {
				// skip ahead to the first period of the next day (pure optimisation of the brute force)
				int64_t next_day = (dn + 1) * MS_DAY;
				int64_t need = civil::floordiv(next_day - 1, unit) + 1 - p0;      // first period index offset >= next day
				int64_t k2 = (need + iv - 1) / iv;
				if (k2 > k + 1) k = k2 - 1;
				break;
			}
			int64_t tod = period_start - dn * MS_DAY;
			int h = (int)(tod / 3600000), mi = (int)(tod / 60000 % 60), s = (int)(tod / 1000 % 60);
			if (!hours.empty() && !in(hours, h)) break;
			if (r.freq == HOURLY) {
				const std::vector<int> one_m{M0}, one_s{S0};
				for (int m2 : (mins.empty() ? one_m : mins)) for (int s2 : (secs.empty() ? one_s : secs)) period.push_back(dn * MS_DAY + h * 3600000LL + m2 * 60000LL + s2 * 1000LL);
			} else if (r.freq == MINUTELY) {
				if (!mins.empty() && !in(mins, mi)) break;
				const std::vector<int> one_s{S0};
				for (int s2 : (secs.empty() ? one_s : secs)) period.push_back(dn * MS_DAY + h * 3600000LL + mi * 60000LL + s2 * 1000LL);
			} else {
				if (!mins.empty() && !in(mins, mi)) break;
				if (!secs.empty() && !in(secs, s)) break;
				period.push_back(period_start);
			}
			break; }
		default: res.complete = true; return res;
		}
		if (period.empty()) continue;
		std::sort(period.begin(), period.end());
		period.erase(std::unique(period.begin(), period.end()), period.end());
		if (!r.bysetpos.empty()) {
			std::vector<int64_t> sel; int n = (int)period.size();
			for (int pos : r.bysetpos) { int i = pos > 0 ? pos - 1 : n + pos; if (i >= 0 && i < n) sel.push_back(period[(size_t)i]); }
			std::sort(sel.begin(), sel.end()); sel.erase(std::unique(sel.begin(), sel.end()), sel.end());
			period.swap(sel);
		}
		for (int64_t t : period) {
			if (t < start) continue;
			if (r.has_until && t > (r.until_date && !date_only ? r.until + MS_DAY - 1 : r.until)) { res.complete = true; return res; }
			if (t > horizon) { res.complete = true; return res; }
			res.occ.push_back(t);
			scanned = 0;
			if (r.count > 0 && (int)res.occ.size() >= r.count) { res.complete = true; return res; }
			if (res.occ.size() >= limit) return res;
		}
	}
}

} // namespace rref
