// Naive TZif reader (independent of echse's tzraw.c): linear scans only.
// Reads the 64-bit (v2+) data block when present, else the v1 block.
#pragma once
#include <cstdint>
#include <string>
#include <vector>
#include <fstream>
#include <sstream>
#include <set>

namespace tzref {

struct Zone {
	std::string name;
	std::vector<int64_t> trans;     // UTC seconds
	std::vector<int> idx;           // ttinfo index per transition
	std::vector<int32_t> utoff;     // per ttinfo
	std::vector<uint8_t> isdst;
	bool ok = false;

	int first_type() const {
		// what applies before the first transition: the first standard-time type, else type 0
		for (size_t i = 0; i < utoff.size(); i++) if (!isdst[i]) return (int)i;
		return 0;
	}
	// offset in force at UTC second u
	int32_t off(int64_t u) const {
		if (utoff.empty()) return 0;
		int t = trans.empty() || u < trans[0] ? (trans.empty() ? 0 : first_type()) : -1;
		if (t < 0) { size_t i = 0; while (i + 1 < trans.size() && trans[i + 1] <= u) i++; t = idx[i]; }
		return utoff[(size_t)t];
	}
	// all UTC seconds u with u + off(u) == local
	std::vector<int64_t> utc_candidates(int64_t local) const {
		std::set<int32_t> offs(utoff.begin(), utoff.end());
		std::vector<int64_t> r;
		for (int32_t o : offs) { int64_t u = local - o; if (off(u) == o) r.push_back(u); }
		return r;
	}
};

inline int64_t be(const unsigned char *p, int n) { uint64_t v = 0; for (int i = 0; i < n; i++) v = (v << 8) | p[i]; if (n == 4) return (int32_t)(uint32_t)v; return (int64_t)v; }

inline Zone load(const std::string &name, const std::string &dir = "/usr/share/zoneinfo") {
	Zone z; z.name = name;
	std::ifstream f(dir + "/" + name, std::ios::binary);
	if (!f) return z;
	std::stringstream ss; ss << f.rdbuf(); std::string d = ss.str();
	const unsigned char *p = (const unsigned char *)d.data(); size_t n = d.size();
	if (n < 44 || d.compare(0, 4, "TZif") != 0) return z;
	auto parse = [&](size_t o, int tsz, size_t *endp) -> bool {
		if (o + 44 > n) return false;
		int ver = p[o + 4]; (void)ver;
		uint32_t isutc = (uint32_t)be(p + o + 20, 4), isstd = (uint32_t)be(p + o + 24, 4), leap = (uint32_t)be(p + o + 28, 4);
		uint32_t timecnt = (uint32_t)be(p + o + 32, 4), typecnt = (uint32_t)be(p + o + 36, 4), charcnt = (uint32_t)be(p + o + 40, 4);
		size_t q = o + 44;
		size_t need = (size_t)timecnt * tsz + timecnt + (size_t)typecnt * 6 + charcnt + (size_t)leap * (tsz + 4) + isstd + isutc;
		if (q + need > n) return false;
		z.trans.clear(); z.idx.clear(); z.utoff.clear(); z.isdst.clear();
		for (uint32_t i = 0; i < timecnt; i++) z.trans.push_back(be(p + q + (size_t)i * tsz, tsz));
		q += (size_t)timecnt * tsz;
		for (uint32_t i = 0; i < timecnt; i++) z.idx.push_back(p[q + i]);
		q += timecnt;
		for (uint32_t i = 0; i < typecnt; i++) { z.utoff.push_back((int32_t)be(p + q + (size_t)i * 6, 4)); z.isdst.push_back(p[q + (size_t)i * 6 + 4]); }
		if (endp) *endp = o + 44 + need;
		return true;
	};
	size_t end1 = 0;
	if (!parse(0, 4, &end1)) return z;
	if (p[4] >= '2') { size_t e2 = 0; if (end1 + 44 <= n && d.compare(end1, 4, "TZif") == 0) parse(end1, 8, &e2); }
	for (int i : z.idx) if (i < 0 || (size_t)i >= z.utoff.size()) return z;
	z.ok = !z.utoff.empty();
	return z;
}

} // namespace tzref
