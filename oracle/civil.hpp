// Independent proleptic-Gregorian calendar arithmetic (Howard Hinnant's
// days_from_civil / civil_from_days).  No echse code or tables.
// Time = int64 milliseconds since 1970-01-01T00:00:00Z.
#pragma once
#include <cstdint>
#include <string>
#include <cstdio>

namespace civil {

inline int64_t days_from_civil(int64_t y, unsigned m, unsigned d) {
	y -= m <= 2;
	const int64_t era = (y >= 0 ? y : y - 399) / 400;
	const unsigned yoe = static_cast<unsigned>(y - era * 400);
	const unsigned doy = (153 * (m > 2 ? m - 3 : m + 9) + 2) / 5 + d - 1;
	const unsigned doe = yoe * 365 + yoe / 4 - yoe / 100 + doy;
	return era * 146097 + static_cast<int64_t>(doe) - 719468;
}

struct YMD { int y; unsigned m, d; };

inline YMD civil_from_days(int64_t z) {
	z += 719468;
	const int64_t era = (z >= 0 ? z : z - 146096) / 146097;
	const unsigned doe = static_cast<unsigned>(z - era * 146097);
	const unsigned yoe = (doe - doe / 1460 + doe / 36524 - doe / 146096) / 365;
	const int64_t y = static_cast<int64_t>(yoe) + era * 400;
	const unsigned doy = doe - (365 * yoe + yoe / 4 - yoe / 100);
	const unsigned mp = (5 * doy + 2) / 153;
	const unsigned d = doy - (153 * mp + 2) / 5 + 1;
	const unsigned m = mp < 10 ? mp + 3 : mp - 9;
	return {static_cast<int>(y + (m <= 2)), m, d};
}

inline bool is_leap(int y) { return (y % 4 == 0 && y % 100 != 0) || y % 400 == 0; }
inline unsigned days_in_month(int y, unsigned m) {
	static const unsigned md[] = {0, 31, 28, 31, 30, 31, 30, 31, 31, 30, 31, 30, 31};
	return m == 2 && is_leap(y) ? 29 : md[m];
}
inline unsigned days_in_year(int y) { return is_leap(y) ? 366 : 365; }

// 1 = Monday .. 7 = Sunday
inline unsigned weekday(int64_t days) {
	int64_t w = (days + 3) % 7;   // 1970-01-01 was a Thursday -> (0+3)%7 = 3 -> Thu is index 3 (Mon=0)
	if (w < 0) w += 7;
	return static_cast<unsigned>(w) + 1;
}
inline unsigned weekday(int y, unsigned m, unsigned d) { return weekday(days_from_civil(y, m, d)); }

inline unsigned yday(int y, unsigned m, unsigned d) {
	return static_cast<unsigned>(days_from_civil(y, m, d) - days_from_civil(y, 1, 1)) + 1;
}

// ISO 8601 week (Monday start, week 1 contains Jan 4th)
struct ISOWeek { int y; unsigned w; };
inline ISOWeek iso_week(int y, unsigned m, unsigned d) {
	int64_t dn = days_from_civil(y, m, d);
	unsigned wd = weekday(dn);                 // 1..7
	int64_t thursday = dn - (wd - 1) + 3;     // Thursday of this ISO week
	YMD t = civil_from_days(thursday);
	int64_t jan1 = days_from_civil(t.y, 1, 1);
	return {t.y, static_cast<unsigned>((thursday - jan1) / 7) + 1};
}
inline unsigned iso_weeks_in_year(int y) {
	// a year has 53 weeks iff Jan 1 is Thu, or leap and Jan 1 is Wed
	unsigned w = weekday(y, 1, 1);
	return (w == 4 || (is_leap(y) && w == 3)) ? 53 : 52;
}

constexpr int64_t MS_DAY = 86400000LL;

struct DT { int y; unsigned m, d, H, M, S, ms; };

inline int64_t to_ms(int y, unsigned m, unsigned d, unsigned H = 0, unsigned M = 0, unsigned S = 0, unsigned ms = 0) {
	return days_from_civil(y, m, d) * MS_DAY + (int64_t)H * 3600000LL + (int64_t)M * 60000LL + (int64_t)S * 1000LL + ms;
}
inline int64_t floordiv(int64_t a, int64_t b) { int64_t q = a / b; if ((a % b != 0) && ((a < 0) != (b < 0))) q--; return q; }
inline int64_t floormod(int64_t a, int64_t b) { return a - floordiv(a, b) * b; }

inline DT from_ms(int64_t t) {
	int64_t days = floordiv(t, MS_DAY);
	int64_t r = t - days * MS_DAY;
	YMD c = civil_from_days(days);
	DT x; x.y = c.y; x.m = c.m; x.d = c.d;
	x.H = (unsigned)(r / 3600000LL); r %= 3600000LL;
	x.M = (unsigned)(r / 60000LL); r %= 60000LL;
	x.S = (unsigned)(r / 1000LL); x.ms = (unsigned)(r % 1000LL);
	return x;
}

inline std::string fmt_ical(int64_t t, bool date_only = false) {
	DT x = from_ms(t); char b[40];
	if (date_only) snprintf(b, sizeof b, "%04d%02u%02u", x.y, x.m, x.d);
	else snprintf(b, sizeof b, "%04d%02u%02uT%02u%02u%02uZ", x.y, x.m, x.d, x.H, x.M, x.S);
	return b;
}
inline std::string fmt_iso(int64_t t) {
	DT x = from_ms(t); char b[48];
	snprintf(b, sizeof b, "%04d-%02u-%02uT%02u:%02u:%02u.%03u", x.y, x.m, x.d, x.H, x.M, x.S, x.ms);
	return b;
}

} // namespace civil
