// Gregorian Easter (anonymous / Meeus-Jones-Butcher algorithm) and the
// SHIFT semantics of echse's README, written independently of echse.
#pragma once
#include "civil.hpp"

namespace computus {

// day number (days since 1970-01-01) of Easter Sunday in year y
inline int64_t easter(int y) {
	int a = y % 19, b = y / 100, c = y % 100, d = b / 4, e = b % 4, f = (b + 8) / 25, g = (b - f + 1) / 3;
	int h = (19 * a + b - d - g + 15) % 30, i = c / 4, k = c % 4, l = (32 + 2 * e + 2 * i - h - k) % 7;
	int m = (a + 11 * h + 22 * l) / 451, month = (h + l - 7 * m + 114) / 31, day = (h + l - 7 * m + 114) % 31 + 1;
	return civil::days_from_civil(y, (unsigned)month, (unsigned)day);
}

// SHIFT=[d][,][bB[+|-]] as the README words it:
//   d   : add d calendar days
//   bB  : then add b business days (Mon-Fri).  From a weekend date the move to the adjacent business
//         day in the direction of the shift is the first of the b days (pinned by test rrul_50: Sunday + 1B = Monday)
//   bB+ / -bB- : the move to the adjacent business day is not counted, b business days follow
//   0B, 0B+ : weekend -> Monday;  -0B, 0B- : weekend -> Friday
struct Shift { int d = 0; bool has_b = false; int b = 0; bool neg_zero = false; bool inv = false; };

inline int64_t apply(const Shift &s, int64_t day) {
	day += s.d;
	if (!s.has_b) return day;
	int dir = s.b > 0 ? 1 : s.b < 0 ? -1 : (s.neg_zero ? -1 : 1);
	int b = s.b < 0 ? -s.b : s.b;
	unsigned w = civil::weekday(day);
	if (w >= 6) {
		day += dir > 0 ? (8 - (int)w) : -((int)w - 5);
		if (b > 0 && !s.inv) b--;
	}
	for (; b > 0; b--) { day += dir; while (civil::weekday(day) >= 6) day += dir; }
	return day;
}

inline std::string text(const Shift &s) {
	std::string t = ";SHIFT=";
	bool any = false;
	if (s.d || !s.has_b) { t += std::to_string(s.d); any = true; }
	if (s.has_b) {
		if (any) t += ",";
		if (s.b == 0 && s.neg_zero && !s.inv) t += "-0B";
		else { t += std::to_string(s.b) + "B"; if (s.inv) t += (s.b > 0 || (s.b == 0 && !s.neg_zero)) ? "+" : "-"; }
	}
	return t;
}

} // namespace computus
