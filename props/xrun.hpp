// Running the real echsx(1) built from the tree (C13, C14): one execution request on stdin, the journal on
// stdout, sendmail redirected to a recorder and alarm()/mkstemp() logged by the LD_PRELOAD shim sut/xshim.c.
#pragma once
#include "harness.hpp"
#include <sys/stat.h>
#include <sys/wait.h>
#include <dirent.h>
#include <fcntl.h>
#include <time.h>
#include <signal.h>

namespace xr {
using namespace vh;

struct XRun {
	bool started = false, hung = false; int status = 0; double wall = 0;
	std::string journal, log, mail; bool mail_sent = false;
	std::vector<std::string> tmpfiles; std::vector<long> alarms; std::vector<std::string> spawns;
	time_t t_before = 0, t_after = 0;
};

inline std::string mkworkdir() {
	const char *base = getenv("TMPDIR"); std::string t = std::string(base && *base ? base : "/tmp") + "/xrun-XXXXXX";
	std::vector<char> b(t.begin(), t.end()); b.push_back(0);
	return mkdtemp(b.data()) ? std::string(b.data()) : std::string();
}
inline void rm_rf(const std::string &d) {
	DIR *dir = opendir(d.c_str()); if (!dir) return;
	while (struct dirent *e = readdir(dir)) { std::string n = e->d_name; if (n == "." || n == "..") continue; std::string p = d + "/" + n; struct stat st; if (!lstat(p.c_str(), &st) && S_ISDIR(st.st_mode)) rm_rf(p); else unlink(p.c_str()); }
	closedir(dir); rmdir(d.c_str());
}
inline void spit(const std::string &fn, const std::string &s, int mode = 0600) { int fd = open(fn.c_str(), O_WRONLY | O_CREAT | O_TRUNC, mode); if (fd < 0) return; size_t o = 0; while (o < s.size()) { ssize_t n = write(fd, s.data() + o, s.size() - o); if (n <= 0) break; o += (size_t)n; } close(fd); }
inline double mono() { struct timespec ts; clock_gettime(CLOCK_MONOTONIC, &ts); return (double)ts.tv_sec + (double)ts.tv_nsec / 1e9; }

// run echsx -v [extra] < vtodo in WD (files of the run live there); wall-clock budget in seconds
inline XRun run_echsx(const std::string &echsx, const std::string &shim, const std::string &wd, const std::string &vtodo, const std::vector<std::string> &extra = {}, double budget = 20.0, long alarm_scale_us = 0) {
	XRun r;
	spit(wd + "/request.ics", vtodo);
	spit(wd + "/sendmail.sh", "#!/bin/sh\n/bin/cat > \"$VERIF_MAIL_OUT\"\n", 0700);
	unlink((wd + "/mail.txt").c_str()); unlink((wd + "/shim.log").c_str());
	r.t_before = time(nullptr);
	double t0 = mono();
	pid_t pid = fork();
	if (pid < 0) return r;
	if (pid == 0) {
		setpgid(0, 0);
		// a defined signal state whatever started the check (a shell puts background commands under SIGINT/SIGQUIT = ignore, and that is inherited through exec)
		{ sigset_t none; sigemptyset(&none); sigprocmask(SIG_SETMASK, &none, nullptr); for (int sg : {SIGINT, SIGQUIT, SIGTERM, SIGHUP, SIGPIPE, SIGALRM, SIGXCPU, SIGCHLD}) signal(sg, SIG_DFL); }
		setenv("LD_PRELOAD", shim.c_str(), 1); setenv("VERIF_SENDMAIL", (wd + "/sendmail.sh").c_str(), 1); setenv("VERIF_MAIL_OUT", (wd + "/mail.txt").c_str(), 1); setenv("VERIF_SHIM_LOG", (wd + "/shim.log").c_str(), 1);
		if (alarm_scale_us > 0) setenv("VERIF_ALARM_SCALE_US", std::to_string(alarm_scale_us).c_str(), 1); else unsetenv("VERIF_ALARM_SCALE_US");
		unsetenv("ASAN_OPTIONS");
		int fi = open((wd + "/request.ics").c_str(), O_RDONLY), fo = open((wd + "/journal.ics").c_str(), O_WRONLY | O_CREAT | O_TRUNC, 0600), fe = open((wd + "/log.txt").c_str(), O_WRONLY | O_CREAT | O_TRUNC, 0600);
		dup2(fi, 0); dup2(fo, 1); dup2(fe, 2); for (int fd = 3; fd < 256; fd++) close(fd);
		std::vector<const char *> av; av.push_back("echsx"); av.push_back("-v"); for (auto &x : extra) av.push_back(x.c_str()); av.push_back(nullptr);
		execv(echsx.c_str(), (char *const *)av.data());
		_exit(126);
	}
	r.started = true;
	for (;;) {
		int st; pid_t w = waitpid(pid, &st, WNOHANG);
		if (w == pid) { r.status = st; break; }
		if (mono() - t0 > budget) { r.hung = true; kill(-pid, SIGKILL); kill(pid, SIGKILL); waitpid(pid, &st, 0); r.status = st; break; }
		usleep(2000);
	}
	r.wall = mono() - t0; r.t_after = time(nullptr);
	kill(-pid, SIGKILL);   // whatever the job left behind
	r.journal = slurp(wd + "/journal.ics"); r.log = slurp(wd + "/log.txt");
	struct stat st; r.mail_sent = stat((wd + "/mail.txt").c_str(), &st) == 0; if (r.mail_sent) r.mail = slurp(wd + "/mail.txt");
	std::stringstream ss(slurp(wd + "/shim.log")); std::string ln;
	while (std::getline(ss, ln)) { if (ln.compare(0, 6, "alarm ") == 0) r.alarms.push_back(atol(ln.c_str() + 6)); else if (ln.compare(0, 8, "mkstemp ") == 0) r.tmpfiles.push_back(ln.substr(8, ln.find(' ', 8) - 8)); else if (ln.compare(0, 6, "spawn ") == 0) r.spawns.push_back(ln.substr(6, ln.find(' ', 6) - 6)); }
	return r;
}

// journal field (first occurrence), "" if absent
inline std::string jfield(const std::string &j, const std::string &name) { size_t p = j.find("\n" + name + ":"); if (p == std::string::npos) return ""; size_t e = j.find('\n', p + 1); return j.substr(p + name.size() + 2, e - p - name.size() - 2); }

} // namespace xr
