// Task model -> iCalendar text renderer (and the canonical attribute dump the
// shim produces, computed from the model).  Used by C05, C10, C11.
#pragma once
#include <rapidcheck.h>
#include "rulegen.hpp"
#include "civil.hpp"
#include <string>
#include <vector>

namespace ig {
using rgen::R;

struct NumOrName { int kind = 0; long num = 0; std::string name; };   // 0 absent, 1 number, 2 name
struct Flag { int kind = 0; std::string spelling; };                   // 0 absent, 1 false-ish, 2 true-ish

struct Task {
	std::string uid, summary, description, organizer, location, shell, ifile, ofile, efile;
	bool organizer_mailto = false;
	std::vector<std::pair<std::string, bool>> attendees;   // (address, written with mailto:)
	Flag mailout, mailerr, mailrun;
	int max_simul = -1;     // -1 absent, 0..62
	int umask = -1;         // -1 absent, 0..0777
	NumOrName owner, setuid, setgid;
	// schedule
	int64_t start = 0; bool date_only = false;
	std::vector<std::string> sched_lines;   // RRULE/RDATE/EXDATE/DURATION ... lines verbatim
	std::vector<int> order;                 // permutation seed for property order
};
struct CalDefaults { int max_simul = -1; int umask = -1; NumOrName owner, setuid, setgid; };

inline std::string esc_dump(const std::string &s) {
	std::string o;
	for (unsigned char c : s) { if (c == '"' || c == '\\') { o += '\\'; o += (char)c; } else if (c < 0x20) { char b[8]; snprintf(b, sizeof b, "\\x%02x", c); o += b; } else o += (char)c; }
	return o;
}
inline void dstr(std::string &o, const char *k, const std::string &v) { if (!v.empty()) o += std::string(" ") + k + "=\"" + esc_dump(v) + "\""; }
inline void dnn(std::string &o, const char *k, const NumOrName &v) { if (v.kind == 1) o += std::string(" ") + k + "=#" + std::to_string(v.num); else if (v.kind == 2) o += std::string(" ") + k + "=\"" + esc_dump(v.name) + "\""; }

// the attribute dump that sut_strm.c's dump_task_attrs() must produce for this task
inline std::string expected_dump(const Task &t, const CalDefaults &d, bool with_owner = true) {
	std::string o = "SCHE uid=\"" + esc_dump(t.uid) + "\"";
	dstr(o, "cmd", t.summary); dstr(o, "desc", t.description); dstr(o, "org", t.organizer);
	for (auto &a : t.attendees) dstr(o, "att", a.first);
	if (with_owner) dnn(o, "owner", t.owner.kind ? t.owner : d.owner);
	dnn(o, "uid", t.setuid.kind ? t.setuid : d.setuid);
	dnn(o, "gid", t.setgid.kind ? t.setgid : d.setgid);
	dstr(o, "wd", t.location); dstr(o, "sh", t.shell); dstr(o, "in", t.ifile); dstr(o, "out", t.ofile); dstr(o, "err", t.efile);
	if (t.mailout.kind) o += std::string(" mailout=") + (t.mailout.kind == 2 ? "1" : "0");
	if (t.mailerr.kind) o += std::string(" mailerr=") + (t.mailerr.kind == 2 ? "1" : "0");
	if (t.mailrun.kind) o += std::string(" mailrun=") + (t.mailrun.kind == 2 ? "1" : "0");
	int ms = t.max_simul >= 0 ? t.max_simul : d.max_simul;
	if (ms >= 0) o += " maxsimul=" + std::to_string(ms);
	int um = t.umask >= 0 ? t.umask : d.umask;
	if (um >= 0) { char b[16]; snprintf(b, sizeof b, " umask=%o", um); o += b; }
	return o;
}

inline std::string nn_text(const NumOrName &v) { return v.kind == 1 ? std::to_string(v.num) : v.name; }

// property lines of one VEVENT in the generated order
inline std::vector<std::string> event_lines(const Task &t) {
	std::vector<std::string> l;
	if (!t.uid.empty()) l.push_back("UID:" + t.uid);
	if (!t.summary.empty()) l.push_back("SUMMARY:" + t.summary);
	if (!t.description.empty()) l.push_back("DESCRIPTION:" + t.description);
	if (!t.organizer.empty()) l.push_back(std::string("ORGANIZER:") + (t.organizer_mailto ? "mailto:" : "") + t.organizer);
	for (auto &a : t.attendees) l.push_back(std::string("ATTENDEE:") + (a.second ? "mailto:" : "") + a.first);
	if (!t.location.empty()) l.push_back("LOCATION:" + t.location);
	if (!t.shell.empty()) l.push_back("X-ECHS-SHELL:" + t.shell);
	if (!t.ifile.empty()) l.push_back("X-ECHS-IFILE:" + t.ifile);
	if (!t.ofile.empty()) l.push_back("X-ECHS-OFILE:" + t.ofile);
	if (!t.efile.empty()) l.push_back("X-ECHS-EFILE:" + t.efile);
	if (t.mailout.kind) l.push_back("X-ECHS-MAIL-OUT:" + t.mailout.spelling);
	if (t.mailerr.kind) l.push_back("X-ECHS-MAIL-ERR:" + t.mailerr.spelling);
	if (t.mailrun.kind) l.push_back("X-ECHS-MAIL-RUN:" + t.mailrun.spelling);
	if (t.max_simul >= 0) l.push_back("X-ECHS-MAX-SIMUL:" + std::to_string(t.max_simul));
	if (t.umask >= 0) { char b[16]; snprintf(b, sizeof b, "0%o", t.umask); l.push_back(std::string("X-ECHS-UMASK:") + b); }
	if (t.owner.kind) l.push_back("X-ECHS-OWNER:" + nn_text(t.owner));
	if (t.setuid.kind) l.push_back("X-ECHS-SETUID:" + nn_text(t.setuid));
	if (t.setgid.kind) l.push_back("X-ECHS-SETGID:" + nn_text(t.setgid));
	if (t.start) l.push_back(t.date_only ? "DTSTART;VALUE=DATE:" + civil::fmt_ical(t.start, true) : "DTSTART:" + civil::fmt_ical(t.start, false));
	for (auto &s : t.sched_lines) l.push_back(s);
	// deterministic shuffle driven by t.order (ATTENDEE relative order must be kept: they form a list)
	std::vector<std::string> att, rest;
	for (auto &x : l) (x.compare(0, 9, "ATTENDEE:") == 0 ? att : rest).push_back(x);
	for (size_t i = 0; i < rest.size() && i < t.order.size(); i++) std::swap(rest[i], rest[(size_t)t.order[i] % rest.size()]);
	// re-insert attendees at a generated position, in order
	size_t pos = t.order.empty() ? 0 : (size_t)t.order.back() % (rest.size() + 1);
	rest.insert(rest.begin() + (long)pos, att.begin(), att.end());
	return rest;
}

struct Layout { bool crlf = false; std::vector<int> fold_cols; };   // fold_cols: fold line i at column fold_cols[i % n] if >0 and shorter than the line

inline std::string fold(const std::string &line, int col, const std::string &eol) {
	if (col <= 0 || (size_t)col >= line.size()) return line + eol;
	std::string o; size_t p = 0; size_t c = (size_t)col;
	while (p < line.size()) { size_t n = std::min(c, line.size() - p); o += line.substr(p, n); p += n; o += eol; if (p < line.size()) o += " "; c = 60; }
	return o;
}

inline std::string render_calendar(const std::vector<Task> &tasks, const CalDefaults &d, const Layout &lay, const std::string &method = "", const std::vector<std::string> &extra_in_event = {}) {
	std::string eol = lay.crlf ? "\r\n" : "\n";
	std::vector<std::string> lines{"BEGIN:VCALENDAR", "VERSION:2.0", "PRODID:-//verif//icalgen//EN"};
	if (!method.empty()) lines.push_back("METHOD:" + method);
	if (d.max_simul >= 0) lines.push_back("X-ECHS-MAX-SIMUL:" + std::to_string(d.max_simul));
	if (d.umask >= 0) { char b[16]; snprintf(b, sizeof b, "0%o", d.umask); lines.push_back(std::string("X-ECHS-UMASK:") + b); }
	if (d.owner.kind) lines.push_back("X-ECHS-OWNER:" + nn_text(d.owner));
	if (d.setuid.kind) lines.push_back("X-ECHS-SETUID:" + nn_text(d.setuid));
	if (d.setgid.kind) lines.push_back("X-ECHS-SETGID:" + nn_text(d.setgid));
	for (auto &t : tasks) {
		lines.push_back("BEGIN:VEVENT");
		for (auto &l : event_lines(t)) lines.push_back(l);
		for (auto &l : extra_in_event) lines.push_back(l);
		lines.push_back("END:VEVENT");
	}
	lines.push_back("END:VCALENDAR");
	std::string o;
	for (size_t i = 0; i < lines.size(); i++) o += fold(lines[i], lay.fold_cols.empty() ? 0 : lay.fold_cols[i % lay.fold_cols.size()], eol);
	return o;
}

// ---- generators
inline rc::Gen<std::string> gen_text(bool plain_only) {
	// values free of characters whose meaning the statement does not pin (backslash escapes are C10's business)
	static const std::vector<std::string> words{"echo", "hello", "/bin/true", "backup.sh", "--flag", "a b", "x=1", "job#7", "50%", "(paren)", "q?", "tab", "ümlaut", "日本", "path/to/file.txt", "user@example.com", "-n", "'single'", "$HOME", "&&", "|", ">out", "1", "0", "true", "false"};
	auto w = rc::gen::elementOf(words);
	return rc::gen::mapcat(R(0, 20), [=](int cls) -> rc::Gen<std::string> {
		// long values: the whole line (key included) stays below the parser's documented 1 KiB line stash; longer lines are ignored by design
		if (cls == 0 && !plain_only) return rc::gen::map(R(880, 996), [](int n) { std::string s; while ((int)s.size() < n) s += "long-value-0123456789 "; s.resize((size_t)n); while (!s.empty() && s.back() == ' ') s.back() = '_'; return s; });
		size_t n = cls < 8 ? 1 : cls < 15 ? 2 : 4;
		return rc::gen::map(rc::gen::container<std::vector<std::string>>(n, w), [](std::vector<std::string> v) { std::string s; for (size_t i = 0; i < v.size(); i++) { if (i) s += " "; s += v[i]; } return s; });
	});
}
inline rc::Gen<std::string> opt_text(int pct, bool plain_only = false) {
	return rc::gen::mapcat(R(0, 100), [=](int p) -> rc::Gen<std::string> { return p < pct ? gen_text(plain_only) : rc::gen::just(std::string()); });
}
inline rc::Gen<Flag> gen_flag(int pct) {
	return rc::gen::map(rc::gen::pair(R(0, 100), R(0, 8)), [=](std::pair<int, int> p) {
		Flag f; if (p.first >= pct) return f;
		static const char *T[] = {"1", "true", "TRUE", "yes"}; static const char *Fs[] = {"0", "false", "FALSE", "f"};
		if (p.second < 4) { f.kind = 2; f.spelling = T[p.second]; } else { f.kind = 1; f.spelling = Fs[p.second - 4]; }
		return f; });
}
inline rc::Gen<NumOrName> gen_nn(int pct) {
	return rc::gen::map(rc::gen::tuple(R(0, 100), R(0, 3), R(1, 65000), rc::gen::element<std::string>("root", "nobody", "daemon", "alice", "web-data", "u_1")), [=](std::tuple<int, int, int, std::string> t) {
		NumOrName v; if (std::get<0>(t) >= pct) return v;
		if (std::get<1>(t) == 0) { v.kind = 2; v.name = std::get<3>(t); } else { v.kind = 1; v.num = std::get<2>(t); }
		return v; });
}

inline rc::Gen<Task> gen_task(int idx_hint = 0) {
	auto part1 = rc::gen::tuple(opt_text(90), opt_text(35), opt_text(35, true), opt_text(45), opt_text(40), opt_text(35), opt_text(35), opt_text(35));
	auto part2 = rc::gen::tuple(gen_flag(35), gen_flag(35), gen_flag(35), R(-60, 63), R(-0777, 01000), gen_nn(25), gen_nn(30), gen_nn(25));
	auto part3 = rc::gen::tuple(R(0, 4), rc::gen::container<std::vector<std::string>>(3, gen_text(true)), rc::gen::container<std::vector<int>>(24, R(0, 1000)), R(0, 100000), R(0, 2));
	return rc::gen::map(rc::gen::tuple(part1, part2, part3), [idx_hint](auto t) {
		Task k; auto &a = std::get<0>(t); auto &b = std::get<1>(t); auto &c = std::get<2>(t);
		k.summary = std::get<0>(a); k.description = std::get<1>(a); k.organizer = std::get<2>(a); k.location = std::get<3>(a);
		k.shell = std::get<4>(a); k.ifile = std::get<5>(a); k.ofile = std::get<6>(a); k.efile = std::get<7>(a);
		k.mailout = std::get<0>(b); k.mailerr = std::get<1>(b); k.mailrun = std::get<2>(b);
		k.max_simul = std::get<3>(b) < 0 ? -1 : std::get<3>(b); k.umask = std::get<4>(b) < 0 ? -1 : std::get<4>(b);
		k.owner = std::get<5>(b); k.setuid = std::get<6>(b); k.setgid = std::get<7>(b);
		int na = std::get<0>(c) > 3 ? 0 : std::get<0>(c) % 4; if (std::get<0>(c) < 2) na = 0;
		for (int i = 0; i < na; i++) { std::string s = std::get<1>(c)[(size_t)i]; for (auto &ch : s) if (ch == ' ') ch = '.'; k.attendees.push_back({s + "@example.org", (std::get<3>(c) >> i) & 1}); }
		// 1 task in 30: many attendees (the list grows past its initial 16 slots)
		if (std::get<3>(c) % 30 == 7) { int n2 = 14 + std::get<3>(c) % 27; for (int i = (int)k.attendees.size(); i < n2; i++) k.attendees.push_back({"person" + std::to_string(i) + "@example.org", (i & 1) != 0}); }
		for (auto &ch : k.organizer) if (ch == ' ') ch = '.';
		k.organizer_mailto = std::get<4>(c) == 1;
		k.order = std::get<2>(c);
		k.uid = "task-" + std::to_string(idx_hint) + "-" + std::to_string(std::get<3>(c)) + "@verif";
		// 1 task in 25: every text field near the line limit at once, the written task is longer than the serialiser's 4 KiB buffer
		if (std::get<3>(c) % 25 == 0) { auto lng = [&](char tag, int n) { std::string v; while ((int)v.size() < n) v += std::string("long-") + tag + "-0123456789_"; v.resize((size_t)n); return v; }; int n0 = 700 + std::get<3>(c) % 290;
			k.summary = lng('s', n0); k.location = "/" + lng('l', n0 - 13); k.shell = "/" + lng('h', n0 - 29); k.ifile = "/" + lng('i', n0 - 5); k.ofile = "/" + lng('o', n0 - 77); k.efile = "/" + lng('e', n0 - 41); }
		return k; });
}

} // namespace ig
