// C07  TZID events occur at the stated local wall-clock time.
//  sweep : every zone file of /usr/share/zoneinfo x every transition 1902..2037 (and the 1st/15th of every
//          month) +-{0,1s,59min,1h,1d}: loc(u) == u + off(u); for unambiguous local L: utc(L) is the single
//          candidate and utc(loc(u)) == u     (oracle: oracle/tzif_ref.hpp, cross-checked against glibc)
//  rules : generated DTSTART;TZID rules: every occurrence's UTC instant == tzif_ref.utc(local time the
//          RFC reference puts on the local calendar), where that local time is unambiguous
#include "harness.hpp"
#include "strmcase.hpp"
#include "rulegen.hpp"
#include "tzif_ref.hpp"
#include <dirent.h>
#include <sys/stat.h>
#include <time.h>

using namespace vh;

static const int64_t T_LO = civil::to_ms(1902, 1, 1) / 1000, T_HI = civil::to_ms(2037, 12, 31) / 1000;

static void list_zones(const std::string &dir, const std::string &rel, std::vector<std::string> &out) {
	DIR *d = opendir((dir + "/" + rel).c_str()); if (!d) return;
	while (struct dirent *e = readdir(d)) {
		std::string n = e->d_name; if (n[0] == '.') continue;
		std::string r = rel.empty() ? n : rel + "/" + n; struct stat st;
		if (stat((dir + "/" + r).c_str(), &st)) continue;
		if (S_ISDIR(st.st_mode)) list_zones(dir, r, out);
		else if (S_ISREG(st.st_mode) && n.find('.') == std::string::npos && n != "leapseconds" && n != "tzdata.zi") out.push_back(r);
	}
	closedir(d);
}

static sut_inst_t inst_of(int64_t s) { civil::DT x = civil::from_ms(s * 1000); return sut_inst_t{x.y, (int)x.m, (int)x.d, (int)x.H, (int)x.M, (int)x.S, SUT_ALL_SEC}; }
static int64_t secs_of(const sut_inst_t &i) { return civil::to_ms(i.y, i.m, i.d, i.H, i.M, i.S) / 1000; }

// judge one (zone, utc second); "" = fine.  *nt is set when the local image is unambiguous (non-trivial: both directions judged)
static std::string judge_point(const tzref::Zone &z, int zh, int64_t u, bool *nt) {
	int32_t off = z.off(u);
	sut_inst_t ui = inst_of(u);
	sut_inst_t li = sut_tz_loc(ui, zh);
	int64_t l = secs_of(li);
	if (l != u + off) return z.name + ": local image of " + civil::fmt_iso(u * 1000) + "Z is " + civil::fmt_iso(l * 1000) + ", zoneinfo says offset " + std::to_string(off) + " s i.e. " + civil::fmt_iso((u + off) * 1000);
	int o2 = sut_tz_offs(ui, zh);
	if (o2 != off) return z.name + ": offset at " + civil::fmt_iso(u * 1000) + "Z reported as " + std::to_string(o2) + " s, zoneinfo says " + std::to_string(off);
	std::vector<int64_t> cand = z.utc_candidates(u + off);
	*nt = cand.size() == 1;
	if (cand.size() == 1) {
		sut_inst_t back = sut_tz_utc(inst_of(u + off), zh);
		if (secs_of(back) != u) return z.name + ": local " + civil::fmt_iso((u + off) * 1000) + " is unambiguous and means " + civil::fmt_iso(u * 1000) + "Z, echse says " + civil::fmt_iso(secs_of(back) * 1000) + "Z";
	}
	return "";
}

// sweep a batch of zones inside one sandbox (tzob.c can intern 64 zone names per process)
struct BatchRes { uint64_t ev = 0, nt = 0; std::string fc, fm, smp; bool crashed = false; std::string crash; uint64_t glibc_checked = 0; std::string oracle_broken; };
static BatchRes run_batch(const std::vector<std::string> &zones, bool all_transitions, int decade_sel) {
	BatchRes br;
	SbxResult r = sandbox([&](Out &o) {
		uint64_t ev = 0, nt = 0, gl = 0; std::string fc, fm, smp, broken;
		for (auto &zn : zones) {
			tzref::Zone z = tzref::load(zn);
			if (!z.ok) continue;
			int zh = sut_tz_open(zn.c_str());
			if (zh < 0) { fc = "point zone=" + zn + " utc=0"; fm = zn + ": zone cannot be opened"; break; }
			std::vector<int64_t> pts;
			for (int64_t t : z.trans) if (t >= T_LO && t <= T_HI) { civil::DT x = civil::from_ms(t * 1000); if (all_transitions || (x.y / 10) % 5 == decade_sel % 5) for (int64_t d : {-86400, -3600, -3540, -1, 0, 1, 3540, 3600, 86400}) pts.push_back(t + d); }
			for (int y = 1902; y <= 2037; y++) { if (!all_transitions && (y / 10) % 5 != decade_sel % 5) continue; for (unsigned m = 1; m <= 12; m++) for (unsigned d : {1u, 15u}) pts.push_back(civil::to_ms(y, m, d, 12, 34, 56) / 1000); }
			// cross-check the reference against glibc on a sample
			setenv("TZ", (":" + zn).c_str(), 1); tzset();
			size_t step = std::max<size_t>(1, pts.size() / 24);
			for (size_t i = 0; i < pts.size(); i += step) { time_t tt = (time_t)pts[i]; struct tm tm; if (localtime_r(&tt, &tm) && tm.tm_gmtoff != z.off(pts[i]) && broken.empty()) broken = zn + " at " + std::to_string(pts[i]) + ": reference says " + std::to_string(z.off(pts[i])) + ", glibc " + std::to_string(tm.tm_gmtoff); gl++; }
			for (int64_t u : pts) {
				if (u < T_LO || u > T_HI) continue;
				bool isnt = false; ev++;
				std::string m = judge_point(z, zh, u, &isnt);
				if (isnt) nt++;
				if (!m.empty() && fc.empty()) { fc = "point zone=" + zn + " utc=" + std::to_string(u); fm = m; }
				if (smp.empty() && isnt && ev % 5003 == 17) smp = zn + " " + civil::fmt_iso(u * 1000) + "Z off=" + std::to_string(z.off(u));
			}
		}
		o.printf("%llu %llu %llu\n", (unsigned long long)ev, (unsigned long long)nt, (unsigned long long)gl);
		o.put(fc + "\n" + fm + "\n" + smp + "\n" + broken + "\n");
	}, 300.0);
	if (!r.ok()) { br.crashed = true; br.crash = r.describe(); return br; }
	std::stringstream ss(r.out); std::string line; std::getline(ss, line);
	unsigned long long e = 0, n = 0, g = 0; sscanf(line.c_str(), "%llu %llu %llu", &e, &n, &g); br.ev = e; br.nt = n; br.glibc_checked = g;
	std::getline(ss, br.fc); std::getline(ss, br.fm); std::getline(ss, br.smp); std::getline(ss, br.oracle_broken);
	return br;
}

// ---- rule level
struct RCase { std::string zone; int64_t local_start; rref::Rule rule; int K = 300; };
static std::string rtext(const RCase &c) { std::string t = civil::fmt_ical(c.local_start, false); t.pop_back(); return "rule zone=" + c.zone + " start=" + t + " k=" + std::to_string(c.K) + " rrule=" + c.rule.text(); }
static bool g_skip_transition_day = false;   // open finding tzid_day_of_transition active
static uint64_t g_skipped_near = 0;
static Verdict judge_rule(const RCase &c) {
	Verdict v;
	tzref::Zone z = tzref::load(c.zone);
	if (!z.ok) return Verdict::inconclusive("zone unreadable");
	// reference on the local calendar (treating local wall-clock as if it were UTC)
	rref::Result ref = rref::expand(c.rule, c.local_start, false, (size_t)c.K, civil::to_ms(2037, 6, 30));
	if (ref.gave_up || ref.occ.empty()) { v.k = Verdict::DISCARD; return v; }
	std::string t = civil::fmt_ical(c.local_start, false); t.pop_back();
	std::string ics = sc::vcal("BEGIN:VEVENT\nUID:c07@verif\nSUMMARY:c07\nDTSTART;TZID=" + c.zone + ":" + t + "\nRRULE:" + c.rule.text() + "\nEND:VEVENT\n");
	sc::Unrolled u = sc::unroll_text(ics, c.K, SUT_F_NO_ATTRS, 20.0);
	if (u.sbx.st == SbxResult::TIMEOUT) return Verdict::inconclusive("budget");
	if (!u.sbx.ok()) return Verdict::fail(u.sbx.describe());
	if (u.tasks.size() != 1) { v.k = Verdict::DISCARD; return v; }
	auto &E = u.tasks[0];
	size_t judged = 0; bool before = false, after = false; int32_t off0 = z.off(0), seen_off = INT32_MIN; bool both = false;
	for (size_t i = 0; i < ref.occ.size(); i++) {
		int64_t L = ref.occ[i] / 1000;
		std::vector<int64_t> cand = z.utc_candidates(L);
		if (cand.size() != 1) break;          // ambiguous / non-existent local time: not judged, and later indices may shift
		if (g_skip_transition_day) { bool near = false; for (int64_t tr : z.trans) if (cand[0] >= tr - 86400 && cand[0] < tr + 86400) { near = true; break; } if (near) { g_skipped_near++; continue; } }
		if (i >= E.size()) return Verdict::fail("occurrence #" + std::to_string(i + 1) + " (local " + civil::fmt_iso(L * 1000) + ") is missing, stream ends after " + std::to_string(E.size()));
		if (E[i].ms / 1000 != cand[0]) return Verdict::fail("occurrence #" + std::to_string(i + 1) + ": local " + civil::fmt_iso(L * 1000) + " in " + c.zone + " is " + civil::fmt_iso(cand[0] * 1000) + "Z, echse runs it at " + civil::fmt_iso(E[i].ms) + "Z");
		int32_t o = (int32_t)(L - cand[0]); if (seen_off == INT32_MIN) seen_off = o; else if (o != seen_off) both = true;
		judged++;
	}
	(void)before; (void)after; (void)off0;
	v.nontrivial = both && judged >= 10;
	v.classes.push_back(std::string("rule/") + rref::FREQ_NAME[c.rule.freq]); if (both) v.classes.push_back("rule/window-spans-a-transition");
	return v;
}

Verdict prop_replay(Ctx &, const std::string &t) {
	if (t.compare(0, 6, "point ") == 0) {
		char zn[128]; long long u; if (sscanf(t.c_str(), "point zone=%127s utc=%lld", zn, &u) != 2) return Verdict::inconclusive("bad case");
		std::string zname = zn; std::string msg;
		SbxResult r = sandbox([&](Out &o) { tzref::Zone z = tzref::load(zname); if (!z.ok) { o.put("zone unreadable"); return; } int zh = sut_tz_open(zname.c_str()); if (zh < 0) { o.put("zone cannot be opened"); return; } bool nt; o.put(judge_point(z, zh, u, &nt)); }, 20.0);
		if (!r.ok()) return Verdict::fail(r.describe());
		return r.out.empty() ? Verdict::pass() : Verdict::fail(r.out);
	}
	if (t.compare(0, 6, "batch ") == 0) {
		// "batch all|sel <zone>,<zone>,..." : the sweep of these zones in one process, in this order
		std::vector<std::string> zs; size_t sp = t.find(' ', 6); std::stringstream ss(t.substr(sp + 1)); std::string tok; while (std::getline(ss, tok, ',')) if (!tok.empty()) zs.push_back(tok);
		BatchRes br = run_batch(zs, t.compare(6, 3, "all") == 0, 1);
		if (br.crashed) return Verdict::fail(br.crash);
		return br.fc.empty() ? Verdict::pass() : Verdict::fail(br.fc + " :: " + br.fm);
	}
	if (t.compare(0, 5, "rule ") == 0) {
		RCase c; auto field = [&](const char *k) -> std::string { size_t p = t.find(std::string(k) + "="); if (p == std::string::npos) return ""; p += strlen(k) + 1; size_t e = t.find(' ', p); return t.substr(p, e == std::string::npos ? e : e - p); };
		c.zone = field("zone"); bool dummy; c.local_start = rref::parse_ical_dt(field("start") + "Z", &dummy); c.K = atoi(field("k").c_str());
		size_t p = t.find(" rrule="); if (p == std::string::npos || !rref::parse_rule(t.substr(p + 7), c.rule)) return Verdict::inconclusive("bad case");
		Verdict v = judge_rule(c); if (v.k == Verdict::DISCARD) return Verdict::inconclusive("not judged"); return v;
	}
	return Verdict::inconclusive("bad case");
}

void prop_gen(Ctx &c) {
	bool survey = c.getoptl("survey", 0) != 0;
	bool thorough = c.tier == "thorough";
	std::vector<std::string> zones; list_zones("/usr/share/zoneinfo", "", zones);
	std::sort(zones.begin(), zones.end());
	// dedupe by content (keep the first name) except that right/ and posix/ trees stay as they are separate data
	std::map<uint64_t, std::string> byhash; std::vector<std::string> uniq;
	for (auto &zn : zones) { std::string d = slurp("/usr/share/zoneinfo/" + zn); if (d.compare(0, 4, "TZif")) continue; uint64_t h = fnv1a(d); if (byhash.emplace(h, zn).second) uniq.push_back(zn); }
	if (c.worker == 0) { c.st.extra["zone_files"] = (int64_t)zones.size(); c.st.extra["distinct_zone_files"] = (int64_t)uniq.size(); }
	bool all_done = true;
	// batches of 40 zones, dealt to workers; a second pass uses interleaved batches of 23 to exercise the MFU cache
	int unit = 0;
	for (int pass = 0; pass < (thorough ? 2 : 1); pass++) {
		size_t bs = pass == 0 ? 40 : 23;
		for (size_t i = 0; i < uniq.size() && !c.fail.have; i += bs) {
			if (unit++ % c.nworkers != c.worker) continue;
			std::vector<std::string> b;
			for (size_t j = 0; j < bs && i + j < uniq.size(); j++) b.push_back(pass == 0 ? uniq[i + j] : uniq[(i + j * 17) % uniq.size()]);
			BatchRes br = run_batch(b, true, (int)(c.seed % 5));
			if (br.crashed) { all_done = false; c.st.failures++; c.note_fail("point zone=" + b[0] + " utc=0", "batch starting at " + b[0] + ": " + br.crash); break; }
			if (!br.oracle_broken.empty()) { fprintf(stderr, "BROKEN ORACLE: %s\n", br.oracle_broken.c_str()); c.st.extra["oracle_disagrees_with_glibc"]++; }
			c.st.evaluations += br.ev; c.nt_bulk += br.nt; c.st.classes[pass == 0 ? "sweep/batch40" : "sweep/interleaved23"] += br.ev; c.st.extra["reference_points_cross_checked_with_glibc"] += (int64_t)br.glibc_checked;
			if (!br.smp.empty() && c.st.samples.size() < 4) c.st.samples.push_back(br.smp);
			if (!br.fc.empty()) { all_done = false; c.st.failures++; if (survey) { c.st.survey_add(br.fm.substr(0, br.fm.find(':')), br.fc + " :: " + br.fm); continue; } c.note_fail(br.fc, br.fm); }
		}
	}
	c.st.exhaustive = all_done;
	if (c.fail.have) return;
	// ---- rule level
	std::string params = "seed=" + std::to_string(c.seed) + " max_success=" + std::to_string(c.cases) + " max_size=" + std::to_string(c.size) + " max_discard_ratio=20";
	setenv("RC_PARAMS", params.c_str(), 1);
	using rgen::R;
	static const char *ZS[] = {"Europe/Berlin", "America/New_York", "Australia/Lord_Howe", "Asia/Kolkata", "Pacific/Chatham", "America/Sao_Paulo", "Africa/Casablanca", "Asia/Tehran", "Europe/London", "America/St_Johns", "Australia/Sydney", "Asia/Kathmandu", "Pacific/Apia", "America/Caracas", "Europe/Moscow", "Africa/Cairo", "Asia/Tokyo", "America/Los_Angeles", "Atlantic/Azores", "Antarctica/Troll"};
	auto genR = rc::gen::map(rc::gen::tuple(R(0, 20), R(1903, 2036), R(1, 13), R(1, 29), R(0, 10), R(0, 60), R(0, 60), R(0, 5), R(1, 4), rgen::byday_plain(), rgen::signed_list(28), R(0, 10)), [](auto t) {
		RCase cs; cs.zone = ZS[std::get<0>(t)];
		int hsel = std::get<4>(t); int H = hsel < 4 ? hsel : hsel < 6 ? 23 : 12 + hsel;   // bias to 0..3 and 23
		cs.local_start = civil::to_ms(std::get<1>(t), (unsigned)std::get<2>(t), (unsigned)std::get<3>(t), (unsigned)H, (unsigned)std::get<5>(t), (unsigned)std::get<6>(t));
		static const rref::Freq F[] = {rref::DAILY, rref::WEEKLY, rref::MONTHLY, rref::YEARLY, rref::DAILY};
		cs.rule.freq = F[std::get<7>(t)]; cs.rule.interval = std::get<8>(t) > 2 ? 2 : 1;
		int sel = std::get<11>(t);
		if (cs.rule.freq == rref::WEEKLY && sel < 5) cs.rule.byday = std::get<9>(t);
		if (cs.rule.freq == rref::MONTHLY && sel < 5) cs.rule.bymonthday = std::get<10>(t);
		cs.K = cs.rule.freq == rref::DAILY ? 400 : cs.rule.freq == rref::WEEKLY ? 200 : cs.rule.freq == rref::MONTHLY ? 60 : 30;
		return cs; });
	g_skip_transition_day = c.excl("tzid_day_of_transition");
	rc::check("C07 rules", [&]() {
		if (c.shrink_exhausted()) return;
		c.st.excluded["tzid_day_of_transition(occurrences)"] = g_skipped_near;
		RCase cs = *genR;
		// synchronise DTSTART with the rule on the local calendar
		{ rref::Rule probe = cs.rule; rref::Result f = rref::expand(probe, cs.local_start, false, 1, civil::to_ms(2037, 6, 30)); if (f.gave_up || f.occ.empty()) RC_DISCARD("sync"); cs.local_start = f.occ[0]; }
		if (c.excl("tz_before_first_transition")) { tzref::Zone z = tzref::load(cs.zone); /* narrow: local start before the zone's first 32-bit transition */ int64_t first = INT64_MAX; for (int64_t t : z.trans) if (t >= -2147483648LL) { first = t; break; } if (cs.local_start / 1000 < first + 86400) { c.st.record("", Verdict::known("tz_before_first_transition")); return; } }
		if (c.excl("tzid_utc_calendar")) {
			// open finding: the rule is expanded on the UTC calendar, so date-level parts are off whenever DTSTART's UTC image lies on another day
			tzref::Zone z = tzref::load(cs.zone); auto cand = z.utc_candidates(cs.local_start / 1000);
			if (cand.size() == 1 && civil::floordiv(cand[0], 86400) != civil::floordiv(cs.local_start / 1000, 86400)) { c.st.record("", Verdict::known("tzid_utc_calendar")); return; }
		}
		std::string txt = rtext(cs);
		Verdict v = judge_rule(cs);
		if (v.k == Verdict::DISCARD) RC_DISCARD("not judged");
		c.st.record(txt, v);
		if (v.k == Verdict::FAIL && survey) { c.st.survey_add("rule " + cs.zone, txt + " :: " + v.msg); return; }
		if (v.k == Verdict::FAIL) { c.note_fail(txt, v.msg); RC_FAIL(v.msg); }
	});
}
