// C01  RRULE expansion equals the RFC 5545 recurrence set.
// Differential against oracle/rrule_ref.hpp on generated (synchronised
// DTSTART, RRULE) pairs, consumed one occurrence at a time through the pull
// parser + task stream (the daemon's path) with interleaved peeks; the CLI path
// (echse unroll on a file) is compared on a sample by the driver (lib/cli.py).
#include "harness.hpp"
#include "strmcase.hpp"
#include "rulegen.hpp"
#include "c01_known.hpp"

using namespace vh;
using rref::Rule;

static const int64_t HORIZON = civil::to_ms(2098, 12, 31, 23, 59, 59);

struct Case { Rule rule; int64_t start = 0; bool date_only = false; int K = 200; int peeks = 0; };

static std::string ctext(const Case &c) {
	return "start=" + civil::fmt_ical(c.start, c.date_only) + " k=" + std::to_string(c.K) + " peeks=" + std::to_string(c.peeks) + " rule=" + c.rule.text();
}
static bool cparse(const std::string &t, Case &c) {
	auto field = [&](const char *k) -> std::string { size_t p = t.find(std::string(k) + "="); if (p == std::string::npos) return ""; p += strlen(k) + 1; size_t e = t.find(' ', p); return t.substr(p, e == std::string::npos ? e : e - p); };
	std::string st = field("start"); if (st.empty()) return false;
	c.start = rref::parse_ical_dt(st, &c.date_only);
	c.K = atoi(field("k").c_str()); if (c.K <= 0) c.K = 200;
	c.peeks = atoi(field("peeks").c_str());
	size_t p = t.find("rule="); if (p == std::string::npos) return false;
	return rref::parse_rule(t.substr(p + 5), c.rule);
}

static std::string classify_rule(const Case &c, size_t nref, std::vector<std::string> &cls) {
	const Rule &r = c.rule;
	std::string sig = rref::FREQ_NAME[r.freq];
	cls.push_back(std::string("freq/") + sig);
	std::string parts;
	if (!r.bymonth.empty()) parts += "+BYMONTH"; if (!r.byweekno.empty()) parts += "+BYWEEKNO"; if (!r.byyearday.empty()) parts += "+BYYEARDAY";
	if (!r.bymonthday.empty()) parts += "+BYMONTHDAY"; if (!r.byday.empty()) parts += "+BYDAY"; if (!r.byhour.empty()) parts += "+BYHOUR";
	if (!r.byminute.empty()) parts += "+BYMINUTE"; if (!r.bysecond.empty()) parts += "+BYSECOND"; if (!r.bysetpos.empty()) parts += "+BYSETPOS";
	cls.push_back("shape/" + sig + (parts.empty() ? "+none" : parts));
	if (r.interval > 1) cls.push_back("interval>1");
	if (r.count >= 0) cls.push_back("COUNT"); if (r.has_until) cls.push_back("UNTIL");
	if (nref > 64) cls.push_back("refill>=1"); if (nref > 128) cls.push_back("refill>=2");
	if (c.date_only) cls.push_back("date-only"); else cls.push_back("date-time");
	bool neg = false; for (auto *v : {&r.bymonthday, &r.byyearday, &r.byweekno, &r.bysetpos}) for (int x : *v) if (x < 0) neg = true;
	for (auto &p : r.byday) if (p.first < 0) neg = true;
	if (neg) cls.push_back("negative-ordinal");
	for (int w : r.byweekno) if (w == 1 || w >= 52 || w == -1 || w == -2 || w <= -52) { cls.push_back("BYWEEKNO/turn-of-year"); break; }
	civil::DT d = civil::from_ms(c.start);
	if (d.m == 2 && d.d == 29) cls.push_back("phase/feb29"); if (d.d == 31) cls.push_back("phase/31st"); if (d.m == 12 && d.d == 31) cls.push_back("phase/dec31");
	return sig + parts;
}

static Verdict judge(Ctx &ctx, const Case &c) {
	Verdict v;
	rref::Result ref = rref::expand(c.rule, c.start, c.date_only, (size_t)c.K, HORIZON);
	if (ref.gave_up) { v.k = Verdict::DISCARD; return v; }
	classify_rule(c, ref.occ.size(), v.classes);
	v.nontrivial = ref.occ.size() >= 2 && (c.rule.nparts() >= 1 || c.rule.interval > 1 || ref.occ.size() > 64);
	std::string kc = c01known::match(ctx, c.rule, c.start, c.date_only, ref);
	if (!kc.empty()) return Verdict::known(kc);

	std::string ics = sc::vcal(sc::vevent("c01@verif", c.start, c.date_only, {"RRULE:" + c.rule.text()}));
	int flags = SUT_F_NO_ATTRS | (c.peeks ? SUT_F_PEEKS : 0);
	sc::Unrolled u = sc::unroll_text(ics, c.K + 8, flags, 10.0);
	if (u.sbx.st == SbxResult::TIMEOUT) {
		u = sc::unroll_text(ics, c.K + 8, flags, 30.0);
		if (u.sbx.st == SbxResult::TIMEOUT) { Verdict f = Verdict::fail("asking for the next occurrences did not return within 30 CPU seconds (hang)"); f.classes = v.classes; f.nontrivial = v.nontrivial; return f; }
	}
	auto failv = [&](const std::string &m) { Verdict f = Verdict::fail(m); f.classes = v.classes; f.nontrivial = v.nontrivial; return f; };
	if (!u.sbx.ok()) return failv(u.sbx.describe());
	if (u.tasks.size() != 1) return failv("the event was not accepted as one task (" + std::to_string(u.tasks.size()) + " tasks): " + u.raw.substr(0, 200));
	if (u.peekdiff) return failv("peeking at the next occurrence did not return what the following pop returned");
	std::vector<sc::Occ> E = u.tasks[0];
	bool ended = u.ended[0];
	// occurrences beyond the horizon are not judged
	for (size_t i = 0; i < E.size(); i++) if (E[i].ms > HORIZON) { E.resize(i); ended = true; break; }
	const auto &L = ref.occ;
	size_t n = std::min(L.size(), E.size());
	int want_kind = c.date_only ? 2 : 1;
	for (size_t i = 0; i < n; i++) {
		if (E[i].ms != L[i] || E[i].kind != want_kind) {
			std::string s = "occurrence #" + std::to_string(i + 1) + ": echse " + (E[i].ms < -4e18 ? std::string("<no calendar date>") : sc::occ_txt(E[i].ms, E[i].kind == 2)) + ", RFC 5545 " + sc::occ_txt(L[i], c.date_only);
			if (i) s += " (previous " + sc::occ_txt(L[i - 1], c.date_only) + ")";
			return failv(s);
		}
	}
	if (E.size() < L.size()) {
		return failv("echse ends after " + std::to_string(E.size()) + " occurrences, RFC 5545 has #" + std::to_string(E.size() + 1) + " = " + sc::occ_txt(L[E.size()], c.date_only) + (ended ? "" : " (stream not ended?)"));
	}
	if (ref.complete && E.size() > L.size()) {
		return failv("RFC 5545 set ends after " + std::to_string(L.size()) + " occurrences" + (L.empty() ? "" : " (last " + sc::occ_txt(L.back(), c.date_only) + ")") + ", echse yields an extra one at " + sc::occ_txt(E[L.size()].ms, E[L.size()].kind == 2));
	}
	return v;
}

Verdict prop_replay(Ctx &ctx, const std::string &t) {
	Case c; if (!cparse(t, c)) return Verdict::inconclusive("unparseable case");
	Verdict v = judge(ctx, c);
	if (v.k == Verdict::SKIP_KNOWN) { ctx.exclude.clear(); v = judge(ctx, c); }   // replay ignores exclusions
	return v;
}

// turn a generated RuleCase into a concrete case: synchronise DTSTART, place UNTIL
static bool concretise(const rgen::RuleCase &g, Case &c, int K) {
	c.rule = g.rule; c.date_only = g.date_only; c.K = K;
	Rule probe = g.rule; probe.count = -1; probe.has_until = false;
	rref::Result first = rref::expand(probe, g.seed_ms, g.date_only, 1, HORIZON, 1500000);
	if (first.gave_up || first.occ.empty()) return false;
	c.start = first.occ[0];
	if (g.until_mode) {
		rref::Result all = rref::expand(probe, c.start, g.date_only, 230, HORIZON, 1500000);
		if (all.gave_up || all.occ.empty()) return false;
		size_t idx = (size_t)g.until_index % all.occ.size();
		if (g.until_mode == 4) idx = all.occ.size() - 1;
		int64_t step = g.date_only ? civil::MS_DAY : 1000;
		int64_t u = all.occ[idx];
		if (g.until_mode == 2) u -= step;
		if (g.until_mode == 3 && idx + 1 < all.occ.size()) u += (all.occ[idx + 1] - u) / 2 / step * step;
		if (u < c.start) u = c.start;
		c.rule.has_until = true; c.rule.until = u; c.rule.until_date = g.date_only;
	}
	return true;
}

void prop_gen(Ctx &c) {
	int K = (int)c.getoptl("k", 200);
	bool survey = c.getoptl("survey", 0) != 0;
	std::string params = "seed=" + std::to_string(c.seed) + " max_success=" + std::to_string(c.cases) + " max_size=" + std::to_string(c.size) + " max_discard_ratio=20";
	setenv("RC_PARAMS", params.c_str(), 1);
	auto gen = rgen::rule_case(true);
	rc::check("C01", [&]() {
		if (c.shrink_exhausted()) return;
		rgen::RuleCase g = *gen;
		Case cs;
		if (!concretise(g, cs, K)) { c.st.extra["unsynchronisable_or_too_sparse"]++; RC_DISCARD("no synchronised DTSTART"); }
		cs.peeks = (int)(g.seed_ms / 1000 % 2);
		std::string txt = ctext(cs);
		Verdict v = judge(c, cs);
		if (v.k == Verdict::DISCARD) { c.st.extra["reference_gave_up"]++; RC_DISCARD("reference gave up"); }
		c.st.record(txt, v);
		if (v.k == Verdict::FAIL && survey) {
			std::string shape; for (auto &cl : v.classes) if (cl.compare(0, 6, "shape/") == 0) shape = cl.substr(6);
			std::string kind = v.msg.compare(0, 5, "CRASH") == 0 ? "crash" : v.msg.find("hang") != std::string::npos ? "hang" : v.msg.find("extra") != std::string::npos ? "extra" : v.msg.find("ends after") != std::string::npos ? "missing-tail" : "differ";
			c.st.survey_add(shape + (cs.rule.interval > 1 ? " iv>1" : "") + (cs.rule.count >= 0 ? " COUNT" : "") + (cs.rule.has_until ? " UNTIL" : "") + (cs.date_only ? " date" : " dt") + " :: " + kind, txt + " :: " + v.msg.substr(0, 300));
			return;
		}
		if (v.k == Verdict::FAIL) { c.note_fail(txt, v.msg); RC_FAIL(v.msg); }
	});
}
