// C08  Instant arithmetic and epoch conversions agree with the calendar.
// Oracle: oracle/civil.hpp (Hinnant).  Exhaustive day level x fixed delta set,
// plus rapidcheck-sampled second / millisecond level, fixup of overflowed
// fields, epoch conversions, ordering predicates.
#include "harness.hpp"
#include "civil.hpp"
#include "sut.h"
#include <rapidcheck.h>

using namespace vh;
using civil::MS_DAY;

static const int64_t LO_DAY = civil::days_from_civil(1901, 1, 1);
static const int64_t HI_DAY = civil::days_from_civil(2099, 12, 31);

// weak symbol: present only when the daemon shim is linked in
extern "C" double sut_daemon_tstamp(sut_inst_t) __attribute__((weak));

// ---- instant <-> text
static std::string itxt(const sut_inst_t &i) {
	char b[64];
	if (i.H == SUT_ALL_DAY) snprintf(b, sizeof b, "%04d-%02d-%02d", i.y, i.m, i.d);
	else if (i.ms == SUT_ALL_SEC) snprintf(b, sizeof b, "%04d-%02d-%02dT%02d:%02d:%02d", i.y, i.m, i.d, i.H, i.M, i.S);
	else snprintf(b, sizeof b, "%04d-%02d-%02dT%02d:%02d:%02d.%03d", i.y, i.m, i.d, i.H, i.M, i.S, i.ms);
	return b;
}
static std::string rawtxt(const sut_inst_t &i) {
	char b[96]; snprintf(b, sizeof b, "%d,%d,%d,%d,%d,%d,%d", i.y, i.m, i.d, i.H, i.M, i.S, i.ms); return b;
}
static bool parse_raw(const std::string &s, sut_inst_t &i) {
	return sscanf(s.c_str(), "%d,%d,%d,%d,%d,%d,%d", &i.y, &i.m, &i.d, &i.H, &i.M, &i.S, &i.ms) == 7;
}
static bool same(const sut_inst_t &a, const sut_inst_t &b) {
	return a.y == b.y && a.m == b.m && a.d == b.d && a.H == b.H && a.M == b.M && a.S == b.S && a.ms == b.ms;
}
// kind: 0 timed ms, 1 all-sec, 2 all-day
static int kind(const sut_inst_t &i) { return i.H == SUT_ALL_DAY ? 2 : i.ms == SUT_ALL_SEC ? 1 : 0; }
static int64_t to_ms(const sut_inst_t &i) {
	if (kind(i) == 2) return civil::to_ms(i.y, i.m, i.d);
	return civil::to_ms(i.y, i.m, i.d, i.H, i.M, i.S, kind(i) == 1 ? 0 : i.ms);
}
static sut_inst_t from_ms(int64_t t, int k) {
	civil::DT x = civil::from_ms(t);
	sut_inst_t i{x.y, (int)x.m, (int)x.d, (int)x.H, (int)x.M, (int)x.S, (int)x.ms};
	if (k == 2) { i.H = SUT_ALL_DAY; i.M = i.S = i.ms = 0; }
	if (k == 1) i.ms = SUT_ALL_SEC;
	return i;
}
static bool in_range(int64_t t) { int64_t d = civil::floordiv(t, MS_DAY); return d >= LO_DAY && d <= HI_DAY; }

// ---- judges (pure; run inside a sandbox by the callers).  "" == agrees
static std::string judge_add_diff(const sut_inst_t &i, int64_t delta) {
	int k = kind(i);
	int64_t t0 = to_ms(i), t1 = t0 + delta;
	sut_inst_t want = from_ms(t1, k);
	sut_inst_t got = sut_instant_add(i, delta);
	if (!same(got, want)) return "add(" + itxt(i) + ", " + std::to_string(delta) + "ms) = " + itxt(got) + " [" + rawtxt(got) + "], calendar says " + itxt(want);
	int64_t d = sut_instant_diff(want, i);
	if (d != delta) return "diff(" + itxt(want) + ", " + itxt(i) + ") = " + std::to_string(d) + "ms, calendar says " + std::to_string(delta);
	d = sut_instant_diff(i, want);
	if (d != -delta) return "diff(" + itxt(i) + ", " + itxt(want) + ") = " + std::to_string(d) + "ms, calendar says " + std::to_string(-delta);
	// inverse: add(add(i,delta), -delta) == i
	sut_inst_t back = sut_instant_add(want, -delta);
	if (!same(back, i)) return "add(" + itxt(want) + ", " + std::to_string(-delta) + "ms) = " + itxt(back) + ", calendar says " + itxt(i);
	return "";
}

static std::string judge_fixup(const sut_inst_t &raw) {
	// mktime-like reading: months carry into years first, then the day count
	// (plus carries from the time of day) runs on from the 1st of that month
	int k = kind(raw);
	int y = raw.y + (raw.m - 1) / 12, m = (raw.m - 1) % 12 + 1;
	int64_t t = civil::days_from_civil(y, m, 1) * MS_DAY + (int64_t)(raw.d - 1) * MS_DAY;
	if (k != 2) t += (int64_t)raw.H * 3600000LL + (int64_t)raw.M * 60000LL + (int64_t)raw.S * 1000LL + (k == 0 ? raw.ms : 0);
	sut_inst_t want = from_ms(t, k);
	sut_inst_t got = sut_instant_fixup(raw);
	if (!same(got, want)) return "fixup(" + rawtxt(raw) + ") = " + itxt(got) + " [" + rawtxt(got) + "], same point in time is " + itxt(want);
	return "";
}

static std::string judge_epoch(const sut_inst_t &i) {
	// timed instant at second resolution
	int64_t want = civil::floordiv(to_ms(i), 1000);
	int64_t got = sut_instant_to_epoch(i);
	if (got != want) return "to_epoch(" + itxt(i) + ") = " + std::to_string(got) + ", calendar says " + std::to_string(want);
	sut_inst_t b = sut_epoch_to_instant(want);
	sut_inst_t w = from_ms(want * 1000, 1);
	bool ok = b.y == w.y && b.m == w.m && b.d == w.d && b.H == w.H && b.M == w.M && b.S == w.S && (b.ms == 0 || b.ms == SUT_ALL_SEC);
	if (!ok) return "from_epoch(" + std::to_string(want) + ") = " + itxt(b) + " [" + rawtxt(b) + "], calendar says " + itxt(w) + " (ms must be 0 or the all-sec sentinel)";
	if (sut_daemon_tstamp) {
		double ts = sut_daemon_tstamp(i);
		if (ts != (double)want) { char bb[64]; snprintf(bb, sizeof bb, "%.3f", ts); return "daemon wake-up timestamp(" + itxt(i) + ") = " + bb + ", calendar says " + std::to_string(want); }
	}
	return "";
}

static std::string judge_order(const sut_inst_t &a, const sut_inst_t &b) {
	auto key = [](const sut_inst_t &i) {
		// all-day before timed on the same day; all-sec before ms in the same second
		int k = kind(i);
		return std::make_tuple(i.y, i.m, i.d, k == 2 ? -1 : i.H, k == 2 ? 0 : i.M, k == 2 ? 0 : i.S, k == 2 ? 0 : (k == 1 ? -1 : i.ms));
	};
	bool lt = key(a) < key(b), eq = key(a) == key(b);
	if (sut_instant_lt(a, b) != (int)lt) return "lt_p(" + itxt(a) + ", " + itxt(b) + ") = " + std::to_string(!lt) + ", calendar order says " + std::to_string(lt);
	if (sut_instant_le(a, b) != (int)(lt || eq)) return "le_p(" + itxt(a) + ", " + itxt(b) + ") wrong";
	if (sut_instant_eq(a, b) != (int)eq) return "eq_p(" + itxt(a) + ", " + itxt(b) + ") wrong";
	return "";
}

// ---- case text:  op=<add|fixup|epoch|order> a=<raw> [b=<raw>] [delta=<ms>]
struct Case { std::string op; sut_inst_t a{}, b{}; int64_t delta = 0; };
static std::string ctext(const Case &c) {
	std::string s = "op=" + c.op + " a=" + rawtxt(c.a);
	if (c.op == "order") s += " b=" + rawtxt(c.b);
	if (c.op == "add") s += " delta=" + std::to_string(c.delta);
	s += "  # " + itxt(c.a);
	if (c.op == "order") s += " vs " + itxt(c.b);
	return s;
}
static bool cparse(const std::string &t, Case &c) {
	auto field = [&](const char *k) -> std::string { size_t p = t.find(std::string(k) + "="); if (p == std::string::npos) return ""; p += strlen(k) + 1; size_t e = t.find(' ', p); return t.substr(p, e == std::string::npos ? e : e - p); };
	c.op = field("op");
	if (!parse_raw(field("a"), c.a)) return false;
	if (c.op == "order" && !parse_raw(field("b"), c.b)) return false;
	if (c.op == "add") c.delta = atoll(field("delta").c_str());
	return c.op == "add" || c.op == "fixup" || c.op == "epoch" || c.op == "order";
}
static std::string judge(const Case &c) {
	if (c.op == "add") return judge_add_diff(c.a, c.delta);
	if (c.op == "fixup") return judge_fixup(c.a);
	if (c.op == "epoch") return judge_epoch(c.a);
	return judge_order(c.a, c.b);
}
static bool crosses_leap_feb(int64_t t0, int64_t t1) {
	if (t0 > t1) std::swap(t0, t1);
	civil::DT a = civil::from_ms(t0), b = civil::from_ms(t1);
	for (int y = a.y; y <= b.y; y++) if (civil::is_leap(y)) { int64_t f = civil::to_ms(y, 2, 29); if (f >= t0 && f <= t1) return true; }
	return false;
}
static Verdict classify(const Case &c, const std::string &msg) {
	Verdict v = msg.empty() ? Verdict::pass() : Verdict::fail(msg);
	static const char *kn[] = {"ms", "allsec", "allday"};
	v.classes.push_back(c.op + "/" + kn[kind(c.a)]);
	if (c.op == "add") {
		int64_t ad = c.delta < 0 ? -c.delta : c.delta;
		v.nontrivial = ad > 49 * MS_DAY || c.delta < 0 || crosses_leap_feb(to_ms(c.a), to_ms(c.a) + c.delta);
		v.classes.push_back(ad > 49 * MS_DAY ? "add/|delta|>49d" : "add/|delta|<=49d");
		if (c.delta < 0) v.classes.push_back("add/negative");
	} else if (c.op == "epoch") {
		v.nontrivial = c.a.m <= 2 || c.a.y < 1970;
		v.classes.push_back(c.a.y < 1970 ? "epoch/pre1970" : c.a.y < 2001 ? "epoch/1970-2000" : "epoch/2001+");
		if (c.a.m <= 2) v.classes.push_back("epoch/jan-feb");
	} else if (c.op == "fixup") {
		v.nontrivial = c.a.d > 28 || c.a.m > 12 || (kind(c.a) != 2 && (c.a.H >= 24 || c.a.M >= 60 || c.a.S >= 60));
	} else v.nontrivial = kind(c.a) != kind(c.b) || (c.a.y == c.b.y && c.a.m == c.b.m && c.a.d == c.b.d);
	return v;
}
static Verdict judge_sandboxed(const Case &c) {
	SbxResult r = sandbox([&](Out &o) { o.put(judge(c)); }, 10.0);
	return classify(c, r.ok() ? r.out : r.describe());
}

Verdict prop_replay(Ctx &, const std::string &ct) {
	Case c;
	if (!cparse(ct, c)) return Verdict::inconclusive("unparseable case");
	return judge_sandboxed(c);
}

// ---- exhaustive day level
static std::vector<int64_t> delta_days() {
	std::set<int64_t> s;
	for (int i = 1; i <= 62; i++) s.insert(i);
	for (int k = 1; k <= 60; k++) s.insert(7 * k);
	for (int i : {59, 60, 89, 90, 91, 92, 120, 181, 182, 183, 184, 364, 365, 366, 367, 730, 731, 1095, 1096, 1460, 1461, 1462, 3652, 3653, 7305, 14610, 36524, 36525}) s.insert(i);
	for (int n = 0; n <= 16; n++) { s.insert(1LL << n); s.insert((1LL << n) - 1); s.insert((1LL << n) + 1); }
	std::vector<int64_t> v;
	for (auto d : s) { v.push_back(d); v.push_back(-d); }
	return v;
}

void prop_gen(Ctx &c) {
	bool all_done = true;
	std::vector<int64_t> dd = delta_days();
	// years are dealt to workers; one sandbox per (year)
	for (int y = 1901; y <= 2099 && !c.fail.have; y++) {
		if ((y - 1901) % c.nworkers != c.worker) continue;
		SbxResult r = sandbox([&](Out &o) {
			uint64_t ev = 0, nt = 0; std::string fc, fm; std::vector<std::string> smp;
			int64_t d0 = civil::days_from_civil(y, 1, 1), d1 = civil::days_from_civil(y, 12, 31);
			for (int64_t d = d0; d <= d1 && fc.empty(); d++) {
				for (int k = 0; k < 3 && fc.empty(); k++) {
					// timed: a day-dependent time of day
					int64_t tod = k == 2 ? 0 : ((d * 7919) % 86400 + 86400) % 86400 * 1000 + (k == 0 ? (d * 31 % 1000 + 1000) % 1000 : 0);
					Case cs; cs.op = "add"; cs.a = from_ms(d * MS_DAY + tod, k);
					auto run = [&](int64_t delta_d) {
						int64_t t1 = d + delta_d;
						if (t1 < LO_DAY || t1 > HI_DAY) return;
						cs.delta = delta_d * MS_DAY;
						ev++;
						bool isnt = (delta_d > 49 || delta_d < 0 || crosses_leap_feb(d * MS_DAY, t1 * MS_DAY));
						if (isnt) nt++;
						std::string m = judge_add_diff(cs.a, cs.delta);
						if (!m.empty() && fc.empty()) { fc = ctext(cs); fm = m; }
						if (isnt && smp.size() < 1 && ev % 1013 == 7) smp.push_back(ctext(cs));
					};
					for (auto delta_d : dd) run(delta_d);
					run(LO_DAY - d); run(HI_DAY - d);
					// epoch conversions of this day at 00:00:00 and 23:59:59 (timed kinds only)
					if (k != 2 && fc.empty()) {
						for (int64_t tod2 : {(int64_t)0, (int64_t)86399000, tod - tod % 1000}) {
							Case ce; ce.op = "epoch"; ce.a = from_ms(d * MS_DAY + tod2, 1);
							if (k == 0) ce.a.ms = 0;
							ev++; if (ce.a.m <= 2 || ce.a.y < 1970) nt++;
							std::string m = judge_epoch(ce.a);
							if (!m.empty() && fc.empty()) { fc = ctext(ce); fm = m; }
						}
					}
				}
			}
			o.printf("%llu %llu\n", (unsigned long long)ev, (unsigned long long)nt);
			o.put(fc + "\n" + fm + "\n");
			for (auto &s : smp) o.put(s + "\n");
		}, 120.0);
		if (!r.ok()) { all_done = false; Case cs; cs.op = "add"; cs.a = from_ms(civil::to_ms(y, 1, 1), 2); c.note_fail(ctext(cs), "year chunk " + std::to_string(y) + ": " + r.describe()); c.st.failures++; break; }
		std::stringstream ss(r.out); std::string line, fc, fm;
		std::getline(ss, line); { unsigned long long e = 0, n = 0; sscanf(line.c_str(), "%llu %llu", &e, &n); c.st.evaluations += e; c.nt_bulk += n; c.st.classes["exhaustive-day-level"] += e; }
		std::getline(ss, fc); std::getline(ss, fm);
		while (std::getline(ss, line)) if (!line.empty() && c.st.samples.size() < 6) c.st.samples.push_back(line);
		if (!fc.empty()) { all_done = false; c.st.failures++; c.note_fail(fc, fm); }
	}
	c.st.exhaustive = all_done;
	if (c.fail.have) return;

	// ---- sampled part
	std::string params = "seed=" + std::to_string(c.seed) + " max_success=" + std::to_string(c.cases) + " max_size=" + std::to_string(c.size);
	setenv("RC_PARAMS", params.c_str(), 1);
	using rc::gen::inRange; using rc::gen::resize;
	auto genDay = resize(1000, rc::gen::weightedOneOf<int64_t>({
		{4, inRange<int64_t>(LO_DAY, HI_DAY + 1)},
		{2, rc::gen::map(rc::gen::pair(inRange(1901, 2100), inRange(1, 13)), [](std::pair<int, int> p) { return civil::days_from_civil(p.first, p.second, civil::days_in_month(p.first, p.second)); })},
		{1, rc::gen::map(inRange(476, 525), [](int q) { return civil::days_from_civil(q * 4, 2, 29); })},
		{1, rc::gen::map(rc::gen::pair(inRange(1901, 2100), inRange(1, 13)), [](std::pair<int, int> p) { return civil::days_from_civil(p.first, p.second, 1); })}}));
	auto genTod = resize(1000, rc::gen::weightedOneOf<int64_t>({
		{3, inRange<int64_t>(0, 86400000)},
		{1, rc::gen::element<int64_t>(0, 999, 1000, 59999, 60000, 3599999, 3600000, 86399000, 86399999, 43200000)},
		{1, rc::gen::map(inRange<int64_t>(0, 86400), [](int64_t s) { return s * 1000; })}}));
	auto genInst = rc::gen::map(rc::gen::tuple(genDay, genTod, resize(1000, inRange(0, 10))), [](std::tuple<int64_t, int64_t, int> t) {
		int k = std::get<2>(t) < 5 ? 0 : std::get<2>(t) < 8 ? 1 : 2;
		int64_t tod = std::get<1>(t);
		if (k == 1) tod -= tod % 1000;
		if (k == 2) tod = 0;
		return from_ms(std::get<0>(t) * MS_DAY + tod, k);
	});
	auto genCase = rc::gen::mapcat(resize(1000, inRange(0, 10)), [=](int sel) -> rc::Gen<Case> {
		if (sel < 4) return rc::gen::map(rc::gen::pair(genInst, genInst), [](std::pair<sut_inst_t, sut_inst_t> p) {
			// the delta is the true distance to a second instant of the same kind
			Case c; c.op = "add"; c.a = p.first; sut_inst_t b = p.second; int k = kind(c.a);
			int64_t tb = to_ms(b);
			if (k == 2) tb -= civil::floormod(tb, MS_DAY); else if (k == 1) tb -= civil::floormod(tb, 1000);
			c.delta = tb - to_ms(c.a); return c; });
		if (sel < 6) return rc::gen::map(rc::gen::tuple(genInst, resize(1000, inRange(0, 13)), resize(1000, inRange(0, 32)), resize(1000, inRange(0, 25)), resize(1000, inRange(0, 61)), resize(1000, inRange(0, 4))),
			[](std::tuple<sut_inst_t, int, int, int, int, int> t) {
				Case c; c.op = "fixup"; c.a = std::get<0>(t); int k = kind(c.a);
				c.a.m += std::get<1>(t); c.a.d += std::get<2>(t);
				if (k != 2) { c.a.H += std::get<3>(t); c.a.M += std::get<4>(t); c.a.S = std::min(63, c.a.S + std::get<5>(t)); }
				if (k == 0 && c.a.ms < 23) c.a.ms += 999;   // ms overflow 1000..1021
				return c; });
		if (sel < 8) return rc::gen::map(genInst, [](sut_inst_t i) { Case c; c.op = "epoch"; c.a = i; if (kind(i) == 2) { c.a.H = 0; c.a.ms = SUT_ALL_SEC; } else if (kind(i) == 0) c.a.ms = 0; return c; });
		return rc::gen::map(rc::gen::tuple(genInst, genInst, resize(1000, inRange(0, 4))), [](std::tuple<sut_inst_t, sut_inst_t, int> t) {
			Case c; c.op = "order"; c.a = std::get<0>(t); c.b = std::get<1>(t);
			int s = std::get<2>(t);
			if (s >= 1) { c.b.y = c.a.y; c.b.m = c.a.m; c.b.d = c.a.d; }              // same day
			if (s >= 2 && kind(c.a) != 2 && kind(c.b) != 2) { c.b.H = c.a.H; c.b.M = c.a.M; c.b.S = c.a.S; }  // same second
			if (s >= 3) c.b = c.a;
			return c; });
	});
	rc::check("C08 sampled", [&]() {
		if (c.shrink_exhausted()) return;
		Case cs = *genCase;
		if (cs.op == "add") {
			if (!in_range(to_ms(cs.a) + cs.delta)) RC_DISCARD("out of range");
		}
		if (cs.op == "fixup") {
			// keep the normalised result inside the range
			if (cs.a.y >= 2098) cs.a.y = 2097;
		}
		if (cs.op == "epoch" && sut_daemon_tstamp == nullptr && false) {}
		std::string txt = ctext(cs);
		Verdict v = judge_sandboxed(cs);
		c.st.record(txt, v);
		if (v.k == Verdict::FAIL) { c.note_fail(txt, v.msg); RC_FAIL(v.msg); }
	});
}
