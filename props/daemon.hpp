// Shared by the daemon properties C04 C06 C11 C12 (and C14's value tracing): running a scripted session of
// the echsd harness (sut/sut_echsd.c) in a sandbox with its own spool directory, decoding the trace.
#pragma once
#include "harness.hpp"
#include "strmcase.hpp"
#include <sys/stat.h>
#include <dirent.h>
#include <sys/resource.h>

namespace dm {
using namespace vh;

struct Spawn { double t; int pid; bool norun; std::string uid; std::string dur; int setuid; std::string vtodo; };
struct Reply { std::vector<std::pair<std::string, std::string>> status; size_t bytes = 0; std::string body; };
struct TaskRow { std::string uid; int owner; int nsim; bool active; double at; std::string cur; unsigned u; };
struct Ev { enum K { SUBMIT, REPLY, SPAWN, EXIT, TIME, DUMP, CHK, SHUT, RELOAD, CRASH, FAULT, SYSCALL, OTHER } k; double t = 0; int peer = -1; Spawn sp; Reply rp; int pid = 0; std::vector<TaskRow> rows; std::string raw; int n = 0; };

struct Trace { SbxResult sbx; std::vector<Ev> ev; std::string raw; };

inline std::string make_spool() {
	const char *base = getenv("TMPDIR"); std::string t = std::string(base && *base ? base : "/tmp") + "/spool-XXXXXX";
	std::vector<char> b(t.begin(), t.end()); b.push_back(0);
	if (!mkdtemp(b.data())) return "";
	return b.data();
}
inline void rm_rf(const std::string &d) {
	DIR *dir = opendir(d.c_str()); if (!dir) return;
	while (struct dirent *e = readdir(dir)) { std::string n = e->d_name; if (n == "." || n == "..") continue; unlink((d + "/" + n).c_str()); }
	closedir(dir); rmdir(d.c_str());
}
inline std::map<std::string, std::string> read_spool(const std::string &d) {
	std::map<std::string, std::string> m; DIR *dir = opendir(d.c_str()); if (!dir) return m;
	while (struct dirent *e = readdir(dir)) { std::string n = e->d_name; if (n == "." || n == "..") continue; m[n] = slurp(d + "/" + n); }
	closedir(dir); return m;
}

inline Trace parse_trace(const std::string &out) {
	Trace tr; tr.raw = out;
	std::stringstream ss(out); std::string ln; Ev *dump = nullptr; std::string *body = nullptr;
	while (std::getline(ss, ln)) {
		if (body) { if (ln == "ENDBODY" || ln == "ENDVTODO") body = nullptr; else *body += ln + "\n"; continue; }
		Ev e; e.k = Ev::OTHER; e.raw = ln;
		if (ln.compare(0, 7, "SUBMIT ") == 0) { e.k = Ev::SUBMIT; sscanf(ln.c_str(), "SUBMIT t=%lf peer=%d", &e.t, &e.peer); }
		else if (ln.compare(0, 6, "REPLY ") == 0) { e.k = Ev::REPLY; unsigned long b = 0; sscanf(ln.c_str(), "REPLY bytes=%lu", &b); e.rp.bytes = b; size_t p = 0; while ((p = ln.find('[', p)) != std::string::npos) { size_t q = ln.find(']', p); if (q == std::string::npos) break; std::string in = ln.substr(p + 1, q - p - 1); size_t sp = in.rfind(' '); e.rp.status.push_back({in.substr(0, sp), in.substr(sp + 1)}); p = q; } }
		else if (ln.compare(0, 6, "VTODO ") == 0) { for (size_t k = tr.ev.size(); k-- > 0;) if (tr.ev[k].k == Ev::SPAWN) { body = &tr.ev[k].sp.vtodo; break; } continue; }
		else if (ln.compare(0, 5, "BODY ") == 0) { if (!tr.ev.empty()) body = &tr.ev.back().rp.body; continue; }
		else if (ln.compare(0, 6, "SPAWN ") == 0) { e.k = Ev::SPAWN; char uid[300] = "", dur[80] = ""; int nr = 0, su = -1; const char *u = strstr(ln.c_str(), " uid="); sscanf(ln.c_str(), "SPAWN t=%lf pid=%d norun=%d", &e.sp.t, &e.sp.pid, &nr); if (u) { const char *d = strstr(u, " dur="); const char *s = strstr(u, " setuid="); if (d) { snprintf(uid, sizeof uid, "%.*s", (int)(d - u - 5), u + 5); if (s) snprintf(dur, sizeof dur, "%.*s", (int)(s - d - 5), d + 5); if (s) su = atoi(s + 8); } } e.sp.norun = nr; e.sp.uid = uid; e.sp.dur = dur; e.sp.setuid = su; e.t = e.sp.t; }
		else if (ln.compare(0, 5, "EXIT ") == 0) { e.k = Ev::EXIT; sscanf(ln.c_str(), "EXIT t=%lf pid=%d", &e.t, &e.pid); }
		else if (ln.compare(0, 5, "TIME ") == 0) { e.k = Ev::TIME; e.t = atof(ln.c_str() + 5); }
		else if (ln.compare(0, 5, "TASK ") == 0) { if (!dump) { Ev d; d.k = Ev::DUMP; tr.ev.push_back(d); dump = &tr.ev.back(); } TaskRow r; char uid[300], cur[80]; int act = 0; if (sscanf(ln.c_str(), "TASK uid=%299s owner=%d cur=%79s nsim=%d active=%d at=%lf u=%u", uid, &r.owner, cur, &r.nsim, &act, &r.at, &r.u) >= 6) { r.uid = uid; r.cur = cur; r.active = act; dump->rows.push_back(r); } continue; }
		else if (ln.compare(0, 7, "ENDDUMP") == 0) { if (!dump) { Ev d; d.k = Ev::DUMP; tr.ev.push_back(d); } dump = nullptr; continue; }
		else if (ln == "CHK-DONE") e.k = Ev::CHK; else if (ln == "SHUT-DONE") e.k = Ev::SHUT; else if (ln == "RELOAD-DONE") e.k = Ev::RELOAD;
		else if (ln.compare(0, 9, "CRASH-AT ") == 0) { e.k = Ev::CRASH; e.n = atoi(ln.c_str() + 9); }
		else if (ln.compare(0, 9, "FAULT-AT ") == 0) { e.k = Ev::FAULT; e.n = atoi(ln.c_str() + 9); }
		else if (ln.compare(0, 8, "SYSCALL ") == 0) { e.k = Ev::SYSCALL; e.n = atoi(ln.c_str() + 8); }
		tr.ev.push_back(e);
		if (dump && e.k != Ev::DUMP) dump = nullptr;
	}
	return tr;
}

// run a script; the child writes the trace to the result pipe (fd 3 is reserved for crash flushes: see below)
inline Trace run_session(const std::string &spool, const std::string &script, double cpu = 20.0) {
	SbxResult r = sandbox([&](Out &o) {
		// the crash path of the harness writes the trace to fd 3: point it at our result pipe
		if (o.fd != 3) { dup2(o.fd, 3); }
		// a daemon must not use up descriptors as it goes: with a low limit a leak of one per execution or request fails the history
		// (24 for the harness and the daemon proper, one more per user: the dump-everybody checkpoint holds a file per user open)
		{ struct rlimit rl; rlim_t want = 24; size_t up = script.find("USERS "); if (up != std::string::npos) { size_t ue = script.find('\n', up); for (size_t k = up; k < ue && k < script.size(); k++) want += script[k] == ' '; }
		  if (!getrlimit(RLIMIT_NOFILE, &rl)) { rl.rlim_cur = want; setrlimit(RLIMIT_NOFILE, &rl); } }
		sut_buf_t b = {nullptr, 0, 0};
		sut_daemon_session(spool.c_str(), script.data(), script.size(), &b);
		if (b.p) { Out o3{3, {}}; o3.put(std::string(b.p, b.n)); o3.flush(); }
	}, cpu);
	Trace t = parse_trace(r.out); t.sbx = r; return t;
}

inline std::string submit_op(unsigned peer, const std::string &ics, size_t chunk = 0) { return "SUBMIT " + std::to_string(peer) + " " + std::to_string(chunk) + " " + std::to_string(ics.size()) + "\n" + ics + "\n"; }

} // namespace dm
