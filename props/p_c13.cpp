// C13  Executor runs the job as specified and routes its output as configured.
// Real-process property test: the echsx built from the tree is run on generated execution requests covering
// the 20 documented stdout/stderr/mail combinations x output sizes beyond pipe capacity x exit paths; the job
// leaves evidence of how it was run (shell, directory, umask, stdin) and writes disjoint alphabets to stdout
// and stderr, so every destination can be projected back onto the two streams.
#include "xrun.hpp"
#include "rulegen.hpp"

using namespace vh;
using namespace xr;

static std::string g_echsx, g_shim;
static bool g_trace = false;

struct Case { int row = 4; long osize = 0, esize = 0; int exitc = 0, sig = 0; int bash = 0; int umask = 022; int ifile = 0; int mailrun = 0; int att = 1; int concurrent = 1; int nap = 0; int plainum = 0; };   // plainum: the umask is spelled without the leading zero (it is octal all the same)   // nap: the job also sleeps that many ms (run times that cross a clock second)

static std::string ctext(const Case &c) { char b[256]; snprintf(b, sizeof b, "row=%d osize=%ld esize=%ld exit=%d sig=%d bash=%d umask=0%o ifile=%d mailrun=%d att=%d concurrent=%d", c.row, c.osize, c.esize, c.exitc, c.sig, c.bash, c.umask, c.ifile, c.mailrun, c.att, c.concurrent); return std::string(b) + " nap=" + std::to_string(c.nap) + " plainum=" + std::to_string(c.plainum); }
static bool cparse(const std::string &t, Case &c) { unsigned um = 022; int n = sscanf(t.c_str(), "row=%d osize=%ld esize=%ld exit=%d sig=%d bash=%d umask=%o ifile=%d mailrun=%d att=%d concurrent=%d", &c.row, &c.osize, &c.esize, &c.exitc, &c.sig, &c.bash, &um, &c.ifile, &c.mailrun, &c.att, &c.concurrent); c.umask = (int)um; size_t np = t.find(" nap="); c.nap = np == std::string::npos ? 0 : atoi(t.c_str() + np + 5); size_t pp = t.find(" plainum="); c.plainum = pp == std::string::npos ? 0 : atoi(t.c_str() + pp + 9); return n == 11; }

// stdout speaks lower case and '\n', stderr upper case and '|': any mix of the two can be taken apart again
static std::string stream(long size, bool err) { std::string s; s.reserve((size_t)size); long k = 0; while ((long)s.size() < size) { char ln[32]; int n = snprintf(ln, sizeof ln, "%ld", k++); for (int i = 0; i < n && (long)s.size() < size; i++) s += (char)((err ? 'A' : 'a') + (ln[i] - '0')); if ((long)s.size() < size) s += err ? '|' : '\n'; } return s; }
static std::string proj(const std::string &s, bool err) { std::string o; for (char ch : s) if (err ? ((ch >= 'A' && ch <= 'Z') || ch == '|') : ((ch >= 'a' && ch <= 'z') || ch == '\n')) o += ch; return o; }
static std::string brief(const std::string &s) { return std::to_string(s.size()) + " bytes" + (s.empty() ? "" : " starting `" + s.substr(0, 24) + "'"); }
static std::string cmp(const std::string &what, const std::string &got, const std::string &want) {
	if (got == want) return "";
	size_t i = 0; while (i < got.size() && i < want.size() && got[i] == want[i]) i++;
	return what + ": got " + std::to_string(got.size()) + " bytes, expected " + std::to_string(want.size()) + " (first difference at byte " + std::to_string(i) + ")";
}

static Verdict judge(const Case &c) {
	std::string wd = mkworkdir(); if (wd.empty()) return Verdict::inconclusive("no work dir");
	auto done = [&](Verdict v) { if (!g_trace) rm_rf(wd); return v; };
	std::string jd = wd + "/jobdir"; mkdir(jd.c_str(), 0755);
	int grp = (c.row - 1) / 4, sub = (c.row - 1) % 4; bool Mo = sub == 0 || sub == 1, Me = sub == 0 || sub == 2;
	std::string of, ef; if (grp == 2 || grp == 3 || grp == 4) of = wd + "/out.txt"; if (grp == 1) ef = wd + "/err.txt"; if (grp == 3) ef = of; if (grp == 4) ef = wd + "/err.txt";
	std::string O = stream(c.osize, false), E = stream(c.esize, true), IN = "stdin line 1\nstdin line 2\n";
	spit(jd + "/o.dat", O); spit(jd + "/e.dat", E); spit(wd + "/in.txt", IN);
	// the job, sourced by the requested shell so that it *is* the requested shell
	std::string job = "echo run >> runs.txt\npwd > pwd.txt\numask > umask.txt\nreadlink /proc/$$/exe > shell.txt\ncat > stdin.copy\n";
	// (the writers read from a pipe: GNU cat copies regular file to regular file with copy_file_range(), which does not
	//  take the file-position lock, so two such writers sharing one open file description overwrite each other -- the job's fault, not the executor's)
	job += c.concurrent ? "cat o.dat | cat & cat e.dat | cat >&2 & wait\n" : "cat o.dat | cat; cat e.dat | cat >&2\n";
	if (c.nap) { char nb[32]; snprintf(nb, sizeof nb, "sleep %d.%03d\n", c.nap / 1000, c.nap % 1000); job += nb; }
	if (c.sig) job += "kill -" + std::to_string(c.sig) + " $$\nsleep 5\n"; else job += "exit " + std::to_string(c.exitc) + "\n";
	spit(jd + "/job.sh", job);
	std::string cmd = ". ./job.sh";
	char um[16]; snprintf(um, sizeof um, c.plainum ? "%o" : "0%o", c.umask);
	std::string req = "BEGIN:VCALENDAR\nVERSION:2.0\nBEGIN:VTODO\nUID:c13job\nSUMMARY:" + cmd + "\nX-ECHS-SETUID:" + std::to_string(getuid()) + "\nX-ECHS-SETGID:" + std::to_string(getgid()) + "\nX-ECHS-SHELL:" + (c.bash ? "/bin/bash" : "/bin/sh") + "\nLOCATION:" + jd + "\nX-ECHS-UMASK:" + um + "\n";
	req += std::string("X-ECHS-MAIL-RUN:") + (c.mailrun ? "1" : "0") + "\nX-ECHS-MAIL-OUT:" + (Mo ? "1" : "0") + "\nX-ECHS-MAIL-ERR:" + (Me ? "1" : "0") + "\n";
	if (c.ifile) req += "X-ECHS-IFILE:" + wd + "/in.txt\n"; if (!of.empty()) req += "X-ECHS-OFILE:" + of + "\n"; if (!ef.empty()) req += "X-ECHS-EFILE:" + ef + "\n";
	req += "ORGANIZER:echse@example.org\n"; if (c.att) req += "ATTENDEE:ops@example.org\n";
	req += "END:VTODO\nEND:VCALENDAR\n";
	// a napping job is started so that its run straddles a clock second (run times are computed from second and nanosecond parts)
	if (c.nap) { struct timespec ts; clock_gettime(CLOCK_REALTIME, &ts); long want = 1000000000L - (long)c.nap * 500000L, wait = want - ts.tv_nsec; if (wait < 0) wait += 1000000000L; usleep((useconds_t)(wait / 1000)); }
	XRun r = run_echsx(g_echsx, g_shim, wd, req, {}, 30.0);
	if (g_trace) fprintf(stderr, "workdir %s\nstatus %d wall %.3f hung %d\n--- journal\n%s--- log\n%s--- mail (%d)\n%.400s\n", wd.c_str(), r.status, r.wall, r.hung, r.journal.c_str(), r.log.c_str(), r.mail_sent, r.mail.c_str());
	if (!r.started) return done(Verdict::inconclusive("cannot start echsx"));
	// a busy machine is no verdict: before calling it a hang the run is repeated with ten times the budget (the job's own files are cumulative, so they are reset first)
	if (r.hung) { unlink((jd + "/runs.txt").c_str()); r = run_echsx(g_echsx, g_shim, wd, req, {}, 300.0); if (r.hung) return done(Verdict::fail("echsx did not finish within 300 s (30 s at first)")); }
	if (WIFSIGNALED(r.status)) return done(Verdict::fail("echsx itself was killed by signal " + std::to_string(WTERMSIG(r.status))));
	std::string tag = "[row " + std::to_string(c.row) + "] ";
	// ---- run exactly once, as specified
	if (slurp(jd + "/runs.txt") != "run\n") return done(Verdict::fail(tag + "the command ran " + std::to_string(slurp(jd + "/runs.txt").size() / 4) + " times"));
	if (slurp(jd + "/pwd.txt") != jd + "\n") return done(Verdict::fail(tag + "working directory is " + slurp(jd + "/pwd.txt")));
	{ std::string s = slurp(jd + "/shell.txt"); bool isbash = s.find("bash") != std::string::npos; if (isbash != (bool)c.bash) return done(Verdict::fail(tag + "the job ran under " + s + " instead of the requested " + (c.bash ? "/bin/bash" : "/bin/sh"))); }
	{ std::string s = slurp(jd + "/umask.txt"); if (strtol(s.c_str(), nullptr, 8) != c.umask) return done(Verdict::fail(tag + "umask of the job is " + s + " instead of " + um)); }
	{ std::string e = cmp(tag + "stdin of the job", slurp(jd + "/stdin.copy"), c.ifile ? IN : ""); if (!e.empty()) return done(Verdict::fail(e)); }
	// ---- routing
	if (!of.empty() && of != ef) { std::string e = cmp(tag + "stdout file", slurp(of), O); if (!e.empty()) return done(Verdict::fail(e)); }
	if (!ef.empty() && of != ef) { std::string e = cmp(tag + "stderr file", slurp(ef), E); if (!e.empty()) return done(Verdict::fail(e)); }
	if (!of.empty() && of == ef) { std::string f = slurp(of); std::string e = cmp(tag + "stdout part of the shared output file", proj(f, false), O); if (e.empty()) e = cmp(tag + "stderr part of the shared output file", proj(f, true), E); if (e.empty() && f.size() != O.size() + E.size()) e = tag + "shared output file holds foreign bytes"; if (!e.empty()) return done(Verdict::fail(e)); }
	bool want_mail = c.att && (Mo || Me || c.mailrun);
	if (want_mail != r.mail_sent) return done(Verdict::fail(tag + (want_mail ? "no mail was sent" : "a mail was sent although nothing asks for one")));
	if (r.mail_sent) {
		size_t hd = r.mail.find("\n\n"); if (hd == std::string::npos) return done(Verdict::fail(tag + "mail has no header/body separator"));
		std::string body = r.mail.substr(hd + 2);
		std::string e = cmp(tag + "stdout part of the mail body", proj(body, false), Mo ? O : ""); if (e.empty()) e = cmp(tag + "stderr part of the mail body", proj(body, true), Me ? E : "");
		if (e.empty() && body.size() != (Mo ? O.size() : 0) + (Me ? E.size() : 0)) e = tag + "mail body holds " + std::to_string(body.size()) + " bytes, job output routed to mail is " + std::to_string((Mo ? O.size() : 0) + (Me ? E.size() : 0));
		if (!e.empty()) return done(Verdict::fail(e));
		if (r.mail.compare(0, 6, "From: ") != 0 || r.mail.find("\nTo: ops@example.org\n") == std::string::npos) return done(Verdict::fail(tag + "mail headers lack From/To"));
	}
	for (auto &t : r.tmpfiles) { struct stat st; if (stat(t.c_str(), &st) == 0) { unlink(t.c_str()); return done(Verdict::fail(tag + "temporary file " + t + " was left behind")); } }
	// ---- journal
	std::string xs = jfield(r.journal, "X-EXIT-STATUS"), sg = jfield(r.journal, "X-SIGNAL");
	if (r.journal.find("BEGIN:VTODO") == std::string::npos && r.journal.find("BEGIN:VJOURNAL") == std::string::npos) return done(Verdict::fail(tag + "no journal entry was written"));
	if (c.sig) { if (sg != std::to_string(c.sig)) return done(Verdict::fail(tag + "job killed by signal " + std::to_string(c.sig) + ", journal says X-SIGNAL:" + sg + " X-EXIT-STATUS:" + xs)); }
	else if (xs != std::to_string(c.exitc) || !sg.empty()) return done(Verdict::fail(tag + "job exited with " + std::to_string(c.exitc) + ", journal says X-EXIT-STATUS:" + xs + (sg.empty() ? "" : " X-SIGNAL:" + sg)));
	{ std::string a = jfield(r.journal, "DTSTART"), b = jfield(r.journal, "COMPLETED"); auto ep = [](const std::string &s) { int Y, M, D, h, m, sec; if (sscanf(s.c_str(), "%4d%2d%2dT%2d%2d%2dZ", &Y, &M, &D, &h, &m, &sec) != 6) return (int64_t)-1; return civil::to_ms(Y, (unsigned)M, (unsigned)D, (unsigned)h, (unsigned)m, (unsigned)sec) / 1000; };
	  int64_t ta = ep(a), tb = ep(b); if (ta < (int64_t)r.t_before - 1 || tb > (int64_t)r.t_after + 1 || ta > tb) return done(Verdict::fail(tag + "journal times DTSTART:" + a + " COMPLETED:" + b + " do not bracket the run")); }
	// the run time recorded for the job cannot exceed what the whole executor took (measured around it)
	{ std::string rt = jfield(r.journal, "X-REAL-TIME"); if (!rt.empty()) { double t = atof(rt.c_str()); if (t < 0 || t > r.wall + 0.05) return done(Verdict::fail(tag + "journal says X-REAL-TIME:" + rt + " but the executor, job included, was gone after " + std::to_string(r.wall) + " s")); } }
	Verdict v; v.nontrivial = c.osize + c.esize > 65536 || c.sig != 0 || c.exitc != 0;
	v.classes.push_back("row/" + std::to_string(c.row)); v.classes.push_back(c.osize + c.esize > 65536 ? "output/>pipe" : c.osize + c.esize > 0 ? "output/small" : "output/none"); v.classes.push_back(c.sig ? "end/signal" : c.exitc ? "end/nonzero" : "end/zero");
	return done(v);
}

Verdict prop_replay(Ctx &c, const std::string &t) { g_trace = c.getoptl("trace", 0) != 0; g_echsx = c.opt["echsx"]; g_shim = c.opt["shim"]; Case cs; if (!cparse(t, cs)) return Verdict::inconclusive("bad case text"); return judge(cs); }

void prop_gen(Ctx &c) {
	g_echsx = c.opt["echsx"]; g_shim = c.opt["shim"];
	bool survey = c.getoptl("survey", 0) != 0;
	std::string params = "seed=" + std::to_string(c.seed) + " max_success=" + std::to_string(c.cases) + " max_size=" + std::to_string(c.size) + " max_discard_ratio=20";
	setenv("RC_PARAMS", params.c_str(), 1);
	using rgen::R;
	static const long SZ[] = {0, 1, 17, 4096, 65536, 65537, 200000, 700000};
	static const int SIG[] = {15, 9, 11, 6, 2};
	int counter = 0;
	rc::check("C13", [&]() {
		if (c.shrink_exhausted()) return;
		Case cs; int n = counter++;
		cs.row = 1 + (n + (int)c.worker * 7) % 20;   // every row in turn, the rest is generated
		int so = *R(0, 10), se = *R(0, 10);
		cs.osize = so < 8 ? SZ[so] : *R(0, 300000); cs.esize = se < 8 ? SZ[se] : *R(0, 300000);
		int end = *R(0, 9); if (end < 5) cs.exitc = 0; else if (end < 8) cs.exitc = *R(1, 255); else cs.sig = SIG[*R(0, 5)];
		cs.bash = *R(0, 2); static const int UM[] = {022, 077, 0, 027, 0177}; cs.umask = UM[*R(0, 5)]; cs.ifile = *R(0, 2); cs.mailrun = *R(0, 3) == 0; cs.att = *R(0, 7) != 0; cs.concurrent = *R(0, 3) != 0; if (*R(0, 5) == 0) cs.nap = *R(100, 600); cs.plainum = *R(0, 4) == 0;
		std::string txt = ctext(cs);
		Verdict v = judge(cs);
		c.st.record(txt, v);
		if (v.k == Verdict::FAIL && survey) { std::string m = v.msg; size_t b = m.find("] "); c.st.survey_add((b == std::string::npos ? m : m.substr(b + 2)).substr(0, 48), txt + " :: " + v.msg); return; }
		if (v.k == Verdict::FAIL) { c.note_fail(txt, v.msg); RC_FAIL(v.msg); }
	});
}
