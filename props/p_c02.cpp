// C02  EXDATE/EXRULE remove, RDATE adds: recurrence-set algebra.
// Metamorphic on echse's own streams (independent of C01): the full event must equal
//   (unroll(RRULE only) U RDATE instants) \ { x : start(x) in EXDATE U unroll(EXRULE) }
#include "harness.hpp"
#include "strmcase.hpp"
#include "rulegen.hpp"

#include "tzif_ref.hpp"
#include <map>
using namespace vh;

struct Ev {
	std::string rrule;             // may be empty (RDATE-only event)
	int64_t start = 0; bool date_only = false;
	int64_t dur = 0;               // ms; 0 = none (cron job)
	bool dur_as_dtend = false;
	std::vector<int64_t> rdates, exdates;
	std::string exrule;
	int K = 150;
	std::string xzone;             // RDATE/EXDATE values are written as local times of this zone (TZID parameter of their own); empty = UTC
};
// local wall-clock text of UTC instant t in zone zn; false if that local time is ambiguous or does not exist
static bool local_txt(const std::string &zn, int64_t t, std::string &out) {
	static std::map<std::string, tzref::Zone> cache; auto it = cache.find(zn); if (it == cache.end()) it = cache.emplace(zn, tzref::load(zn)).first;
	const tzref::Zone &z = it->second; if (!z.ok) return false;
	int64_t u = civil::floordiv(t, 1000); if (u < -2145916800LL || u > 2114380800LL) return false;   // zone tables are only relied upon for 1902..2036 (what lies beyond is C07's business)
	int64_t loc = u + z.off(u); if (z.utc_candidates(loc).size() != 1) return false;
	out = civil::fmt_ical(loc * 1000, false); if (!out.empty() && out.back() == 'Z') out.pop_back(); return true;
}
static bool zlist(const std::string &zn, const std::vector<int64_t> &v, std::string &out) { out.clear(); for (size_t i = 0; i < v.size(); i++) { std::string x; if (!local_txt(zn, v[i], x)) return false; if (i) out += ","; out += x; } return true; }
static std::string dlist(const std::vector<int64_t> &v, bool d) { std::string s; for (size_t i = 0; i < v.size(); i++) { if (i) s += ","; s += civil::fmt_ical(v[i], d); } return s; }
static std::string durtxt(int64_t ms) { int64_t s = ms / 1000; std::string t = "P"; if (s >= 86400) { t += std::to_string(s / 86400) + "D"; s %= 86400; } if (s) { t += "T"; if (s >= 3600) { t += std::to_string(s / 3600) + "H"; s %= 3600; } if (s >= 60) { t += std::to_string(s / 60) + "M"; s %= 60; } if (s) t += std::to_string(s) + "S"; } if (t == "P") t = "PT0S"; return t; }
static std::string render(const Ev &e, bool with_rrule, bool with_rdate, bool with_ex, const std::string &override_rule = "") {
	std::vector<std::string> l;
	std::string vd = e.date_only ? ";VALUE=DATE" : "";
	if (e.dur > 0) { if (e.dur_as_dtend) l.push_back("DTEND" + vd + ":" + civil::fmt_ical(e.start + e.dur, e.date_only)); else l.push_back("DURATION:" + durtxt(e.dur)); }
	if (!override_rule.empty()) l.push_back("RRULE:" + override_rule);
	else if (with_rrule && !e.rrule.empty()) l.push_back("RRULE:" + e.rrule);
	std::string zr, zx; bool zoned = !e.xzone.empty() && !e.date_only && zlist(e.xzone, e.rdates, zr) && zlist(e.xzone, e.exdates, zx);
	if (with_rdate && !e.rdates.empty()) l.push_back(zoned ? "RDATE;TZID=" + e.xzone + ":" + zr : "RDATE" + vd + ":" + dlist(e.rdates, e.date_only));
	if (with_ex && !e.exdates.empty()) l.push_back(zoned ? "EXDATE;TZID=" + e.xzone + ":" + zx : "EXDATE" + vd + ":" + dlist(e.exdates, e.date_only));
	if (with_ex && !e.exrule.empty()) l.push_back("EXRULE:" + e.exrule);
	return sc::vcal(sc::vevent("c02@verif", e.start, e.date_only, l));
}

// case text: key lines, self-contained
static std::string ctext(const Ev &e) {
	return "start=" + civil::fmt_ical(e.start, e.date_only) + " k=" + std::to_string(e.K) + " dur=" + std::to_string(e.dur) + " dtend=" + std::to_string((int)e.dur_as_dtend) +
		" rdate=" + (e.rdates.empty() ? "-" : dlist(e.rdates, e.date_only)) + " exdate=" + (e.exdates.empty() ? "-" : dlist(e.exdates, e.date_only)) +
		" xz=" + (e.xzone.empty() ? "-" : e.xzone) + " exrule=" + (e.exrule.empty() ? "-" : e.exrule) + " rrule=" + (e.rrule.empty() ? "-" : e.rrule);
}
static bool cparse(const std::string &t, Ev &e) {
	auto field = [&](const char *k) -> std::string { size_t p = t.find(std::string(k) + "="); if (p == std::string::npos) return ""; p += strlen(k) + 1; size_t q = t.find(' ', p); return t.substr(p, q == std::string::npos ? q : q - p); };
	std::string st = field("start"); if (st.empty()) return false;
	e.start = rref::parse_ical_dt(st, &e.date_only); e.K = atoi(field("k").c_str()); e.dur = atoll(field("dur").c_str()); e.dur_as_dtend = field("dtend") == "1";
	auto lst = [&](const std::string &s, std::vector<int64_t> &v) { if (s == "-" || s.empty()) return; std::stringstream ss(s); std::string tok; while (std::getline(ss, tok, ',')) v.push_back(rref::parse_ical_dt(tok, nullptr)); };
	lst(field("rdate"), e.rdates); lst(field("exdate"), e.exdates);
	e.exrule = field("exrule"); if (e.exrule == "-") e.exrule.clear();
	e.xzone = field("xz"); if (e.xzone == "-") e.xzone.clear();
	e.rrule = field("rrule"); if (e.rrule == "-") e.rrule.clear();
	return e.K > 0;
}

struct Strm { std::vector<sc::Occ> occ; bool ended = false; std::string err; };
static Strm run(const std::string &ics, int n) {
	Strm s; sc::Unrolled u = sc::unroll_text(ics, n, SUT_F_NO_ATTRS | SUT_F_DUR, 10.0);
	if (!u.sbx.ok()) { s.err = u.sbx.describe(); return s; }
	if (u.tasks.size() != 1) { s.err = "event not accepted"; return s; }
	s.occ = u.tasks[0]; s.ended = u.ended[0]; return s;
}

static Verdict judge(const Ev &e) {
	Verdict v;
	int n = e.K;
	int big = n + (int)e.exdates.size() + 400;
	Strm full = run(render(e, true, true, true), n);
	if (!full.err.empty()) return Verdict::fail("full event: " + full.err);
	Strm rr; if (!e.rrule.empty()) { rr = run(render(e, true, false, false), big); if (!rr.err.empty()) { Verdict d; d.k = Verdict::DISCARD; return d; } }
	Strm rd; if (!e.rdates.empty()) { Ev e2 = e; rd = run(render(e2, false, true, false), big); if (!rd.err.empty()) { Verdict d; d.k = Verdict::DISCARD; return d; } }
	Strm xr; if (!e.exrule.empty()) { xr = run(render(e, false, false, false, e.exrule), big * 4); if (!xr.err.empty()) { Verdict d; d.k = Verdict::DISCARD; return d; } }
	// expected = (rr U rd) \ (exdates U xr), ordered by start, identical starts collapsed
	std::map<int64_t, int64_t> uni;
	for (auto &o : rr.occ) uni[o.ms] = o.dur;
	for (auto &o : rd.occ) uni.emplace(o.ms, o.dur);
	std::set<int64_t> ex(e.exdates.begin(), e.exdates.end());
	for (auto &o : xr.occ) ex.insert(o.ms);
	// how far are all baselines complete?
	int64_t horizon = INT64_MAX;
	if (!e.rrule.empty() && !rr.ended) horizon = std::min(horizon, rr.occ.empty() ? INT64_MIN : rr.occ.back().ms);
	if (!e.exrule.empty() && !xr.ended) horizon = std::min(horizon, xr.occ.empty() ? INT64_MIN : xr.occ.back().ms);
	std::vector<std::pair<int64_t, int64_t>> want;
	size_t hit = 0;
	for (auto &kv : uni) { if (kv.first >= horizon) break; if (ex.count(kv.first)) { hit++; continue; } want.push_back(kv); }
	size_t i = 0;
	for (; i < want.size() && i < full.occ.size(); i++) {
		if (full.occ[i].ms != want[i].first) {
			bool dropped = full.occ[i].ms > want[i].first;
			return Verdict::fail("occurrence #" + std::to_string(i + 1) + ": echse " + civil::fmt_iso(full.occ[i].ms) + ", algebra gives " + civil::fmt_iso(want[i].first) +
				(dropped ? " (an occurrence no exception names was dropped)" : ex.count(full.occ[i].ms) ? " (an excluded occurrence was delivered)" : " (unexpected occurrence)"));
		}
		if (full.occ[i].dur != want[i].second) return Verdict::fail("occurrence #" + std::to_string(i + 1) + " " + civil::fmt_iso(want[i].first) + ": duration " + std::to_string(full.occ[i].dur) + " ms, baseline " + std::to_string(want[i].second));
	}
	if (i < want.size() && full.ended) return Verdict::fail("stream ends after " + std::to_string(full.occ.size()) + " occurrences, " + civil::fmt_iso(want[i].first) + " is owed");
	if (horizon == INT64_MAX && full.occ.size() > want.size()) return Verdict::fail("stream delivers " + civil::fmt_iso(full.occ[want.size()].ms) + " beyond the algebra's last occurrence" + (ex.count(full.occ[want.size()].ms) ? " (an excluded occurrence)" : ""));
	v.nontrivial = hit >= 1 && !want.empty();
	v.classes.push_back(e.dur == 0 ? "dur/zero" : "dur/positive");
	if (!e.exrule.empty()) v.classes.push_back("EXRULE"); if (!e.exdates.empty()) v.classes.push_back("EXDATE"); if (!e.rdates.empty()) v.classes.push_back("RDATE");
	if (e.rrule.empty()) v.classes.push_back("rdate-only");
	v.classes.push_back(hit >= 2 ? "exceptions-hit/2+" : hit == 1 ? "exceptions-hit/1" : "exceptions-hit/0");
	v.classes.push_back(e.date_only ? "date" : "date-time");
	return v;
}

Verdict prop_replay(Ctx &, const std::string &t) { Ev e; if (!cparse(t, e)) return Verdict::inconclusive("bad case"); Verdict v = judge(e); if (v.k == Verdict::DISCARD) return Verdict::inconclusive("baseline failed"); return v; }

void prop_gen(Ctx &c) {
	bool survey = c.getoptl("survey", 0) != 0;
	std::string params = "seed=" + std::to_string(c.seed) + " max_success=" + std::to_string(c.cases) + " max_size=" + std::to_string(c.size) + " max_discard_ratio=20";
	setenv("RC_PARAMS", params.c_str(), 1);
	using rgen::R;
	// base rule shapes on which the stream is regular enough to know the gap: simple FREQ/INTERVAL/BYDAY shapes
	auto genBase = rc::gen::map(rc::gen::tuple(R(0, 9), R(1, 5), rgen::byday_plain(), R(1902, 2090), R(1, 13), R(1, 29), R(0, 86400), R(0, 10)), [](auto t) {
		Ev e; int k = std::get<0>(t); int iv = std::get<1>(t);
		auto bd = [](const std::vector<std::pair<int, int>> &v) { std::string s; for (size_t i = 0; i < v.size(); i++) { if (i) s += ","; s += rref::WD_NAME[v[i].second]; } return s; };
		static const char *F[] = {"YEARLY", "MONTHLY", "WEEKLY", "DAILY", "HOURLY", "MINUTELY", "DAILY", "WEEKLY", "MONTHLY"};
		e.date_only = std::get<7>(t) < 3 && k != 4 && k != 5;
		e.rrule = std::string("FREQ=") + F[k] + (iv > 1 ? ";INTERVAL=" + std::to_string(iv) : "");
		if (k == 7) e.rrule += ";BYDAY=" + bd(std::get<2>(t));
		if (k == 8) e.rrule += ";BYMONTHDAY=1,15";
		e.start = civil::to_ms(std::get<3>(t), (unsigned)std::get<4>(t), (unsigned)std::get<5>(t)) + (e.date_only ? 0 : (int64_t)std::get<6>(t) * 1000);
		return e; });
	auto genEv = rc::gen::map(rc::gen::tuple(genBase, R(0, 10), R(0, 100), rc::gen::container<std::vector<int>>(8, R(0, 60)), R(0, 100), rc::gen::container<std::vector<int>>(6, R(-20, 400)), R(0, 100), R(2, 6), R(0, 100), R(0, 4)), [](auto t) {
		Ev e = std::get<0>(t);
		e.K = 150;
		// the event text so far lets us obtain the plain stream later; placeholders resolved in the property body
		// encode choices in fields: dur class, exdate index picks, rdate offsets, exrule
		e.dur = std::get<1>(t);                 // class 0..9, resolved later
		e.dur_as_dtend = std::get<2>(t) < 40;
		for (int x : std::get<3>(t)) e.exdates.push_back(x);       // indices, resolved later
		if (std::get<4>(t) >= 45) e.exdates.clear();
		for (int x : std::get<5>(t)) e.rdates.push_back(x);        // offsets, resolved later
		if (std::get<6>(t) >= 35) e.rdates.clear();
		if (std::get<8>(t) < 30) e.exrule = "EVERY" + std::to_string(std::get<7>(t));   // every n-th period, resolved later
		if (std::get<9>(t) == 0 && !e.rdates.empty() && std::get<8>(t) >= 30) e.rrule.clear();   // RDATE-only event
		return e; });
	rc::check("C02", [&]() {
		if (c.shrink_exhausted()) return;
		Ev g = *genEv; Ev e = g;
		// baseline stream of the rule to resolve indices into real instants
		std::vector<sc::Occ> occ;
		int64_t gap = 86400000;
		if (!g.rrule.empty()) {
			Strm b = run(render(g, true, false, false), 80);
			if (!b.err.empty() || b.occ.size() < 70) RC_DISCARD("baseline");
			occ = b.occ;
			gap = INT64_MAX; for (size_t i = 1; i < occ.size(); i++) gap = std::min(gap, occ[i].ms - occ[i - 1].ms);
		}
		int64_t unit = e.date_only ? civil::MS_DAY : 1000;
		// duration classes: zero (cron), 1 unit, half the gap, gap - 1 unit
		int dc = (int)g.dur;
		e.dur = dc < 4 ? 0 : dc < 6 ? unit : dc < 8 ? gap / 2 / unit * unit : gap - unit;
		if (e.dur < 0 || e.dur >= gap) e.dur = 0;
		// EXDATE: occurrences by index (consecutive runs arise naturally), plus non-occurrences and instants before DTSTART
		e.exdates.clear();
		for (size_t i = 0; i < g.exdates.size(); i++) {
			int64_t idx = g.exdates[i];
			if (occ.empty()) { e.exdates.push_back(e.start + (idx - 10) * unit * 3600); continue; }
			int64_t t = occ[(size_t)idx % occ.size()].ms;
			if (i == 5) t += unit;            // an instant that is no occurrence (just after one)
			if (i == 6) t = e.start - unit * (1 + idx);   // before the first occurrence
			if (i == 7 && e.dur > unit) t += e.dur / 2 / unit * unit;   // inside an occurrence's span but not its start
			if (i == 1 && idx % 2) t = occ[((size_t)g.exdates[0] + 1) % occ.size()].ms;   // consecutive
			if (i == 2 && idx % 2) t = occ[((size_t)g.exdates[0] + 2) % occ.size()].ms;
			e.exdates.push_back(t);
		}
		// RDATE: offsets from DTSTART in coarse units, may coincide with rule instances, be out of order or before DTSTART
		e.rdates.clear();
		for (size_t i = 0; i < g.rdates.size(); i++) { int64_t o = g.rdates[i]; int64_t t = (i % 2 && !occ.empty()) ? occ[(size_t)(o + 20) % occ.size()].ms + (o % 3 == 0 ? 0 : unit * 7) : e.start + o * (e.date_only ? civil::MS_DAY : 3600000LL * 5); e.rdates.push_back(t); }
		if (g.rrule.empty() && e.rdates.empty()) RC_DISCARD("empty");
		// EXRULE: the same rule with a multiplied INTERVAL (every n-th instance of plain FREQ rules)
		e.exrule.clear();
		if (!g.exrule.empty() && !g.rrule.empty() && g.rrule.find("BY") == std::string::npos) {
			int nth = atoi(g.exrule.c_str() + 5); size_t p = g.rrule.find("INTERVAL="); int iv = p == std::string::npos ? 1 : atoi(g.rrule.c_str() + p + 9);
			std::string f = g.rrule.substr(0, g.rrule.find(';'));
			e.exrule = f + ";INTERVAL=" + std::to_string(iv * nth);
		}
		// every fourth timed event writes its RDATE/EXDATE values in a zone of their own (DTSTART stays in UTC)
		{ static const char *ZN[] = {"Europe/Berlin", "America/New_York", "Asia/Tokyo", "Australia/Sydney", "Asia/Kolkata"}; int zsel = *R(0, 19); if (zsel < 5 && !e.date_only && (!e.rdates.empty() || !e.exdates.empty())) e.xzone = ZN[zsel]; }
		std::string txt = ctext(e);
		Verdict v = judge(e);
		if (!e.xzone.empty()) v.classes.push_back("RDATE/EXDATE;TZID");
		if (v.k == Verdict::DISCARD) { c.st.extra["baseline_failed"]++; RC_DISCARD("baseline"); }
		c.st.record(txt, v);
		if (v.k == Verdict::FAIL && survey) { c.st.survey_add(v.msg.substr(v.msg.find('(') == std::string::npos ? 0 : v.msg.find('('), 60) + (e.dur ? " dur>0" : " dur=0"), txt + " :: " + v.msg); return; }
		if (v.k == Verdict::FAIL) { c.note_fail(txt, v.msg); RC_FAIL(v.msg); }
	});
}
