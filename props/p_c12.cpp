// C12  X-ECHS-MAX-SIMUL bounds concurrent runs of a task, and only of that task.
// Model-based over generated schedules: several tasks with limits N in 1..62 or unset, job durations
// relative to the period chosen by the generator through the points at which children exit.
#include "daemon.hpp"
#include "rulegen.hpp"

using namespace vh;
using namespace dm;

static const double T0 = 1577872800.0;   // 2020-01-01T10:00:00Z, the harness' initial "now"
static bool g_trace = false;

static std::string event_ics(const std::string &uid, int64_t dtstart_s, const std::vector<std::string> &lines) {
	std::string b = "BEGIN:VCALENDAR\nVERSION:2.0\nBEGIN:VEVENT\nUID:" + uid + "\nSUMMARY:job " + uid + "\nDTSTART:" + civil::fmt_ical(dtstart_s * 1000, false) + "\n";
	for (auto &l : lines) b += l + "\n";
	b += "END:VEVENT\nEND:VCALENDAR\n";
	return b;
}

struct Tk { long limit = -1; int running = 0; int maxrun = 0; int refused = 0, started = 0; bool ran_after_refusal = false; double last_occ = 0; };

static Verdict judge_script(const std::string &script) {
	// limits per UID from the script itself (the last add wins; C12 histories do not replace tasks)
	std::map<std::string, Tk> tk;
	{ size_t p = 0; while ((p = script.find("\nUID:", p)) != std::string::npos) { size_t e = script.find('\n', p + 1); std::string uid = script.substr(p + 5, e - p - 5); size_t end = script.find("END:VEVENT", p); size_t m = script.find("X-ECHS-MAX-SIMUL:", p); Tk t; if (m != std::string::npos && m < end) t.limit = atol(script.c_str() + m + 17);
		// last occurrence of the FREQ=SECONDLY;INTERVAL=i;COUNT=n rules the generator writes (0 = unknown)
		size_t d = script.find("DTSTART:", p), iv = script.find("INTERVAL=", p), cn = script.find("COUNT=", p); int Y, Mo, D, H, Mi, S;
		if (d < end && iv < end && cn < end && sscanf(script.c_str() + d + 8, "%4d%2d%2dT%2d%2d%2dZ", &Y, &Mo, &D, &H, &Mi, &S) == 6) t.last_occ = (double)civil::to_ms(Y, Mo, D, H, Mi, S) / 1000.0 + atol(script.c_str() + iv + 9) * (double)(atol(script.c_str() + cn + 6) - 1);
		tk[uid] = t; p = e; } }
	std::string spool = make_spool(); if (spool.empty()) return Verdict::inconclusive("no spool");
	Trace tr = run_session(spool, script, 30.0);
	rm_rf(spool);
	if (g_trace) fprintf(stderr, "%s\n[%s]\n", tr.raw.c_str(), tr.sbx.describe().c_str());
	if (tr.sbx.st == SbxResult::TIMEOUT) return Verdict::fail("the daemon did not finish the history within 30 CPU seconds");
	if (!tr.sbx.ok()) return Verdict::fail(tr.sbx.describe());
	std::map<int, std::string> pid_uid; size_t nspawn = 0; double now = T0; bool other_at_limit_while_started = false;
	for (const Ev &e : tr.ev) {
		if (e.k == Ev::REPLY) { if (e.rp.status.size() != 1 || e.rp.status[0].second[0] != '2') return Verdict::inconclusive("a task of the schedule was not accepted"); }
		else if (e.k == Ev::SPAWN) {
			nspawn++;
			auto it = tk.find(e.sp.uid); if (it == tk.end()) return Verdict::fail("an execution is started for unknown task " + e.sp.uid);
			Tk &t = it->second; char tb[48]; snprintf(tb, sizeof tb, "t=+%.3f: ", e.sp.t - T0);
			bool at_limit = t.limit >= 0 && t.running >= t.limit;
			if (at_limit && !e.sp.norun) return Verdict::fail(std::string(tb) + "an execution of " + e.sp.uid + " is started while " + std::to_string(t.running) + " of its executions are running: limit X-ECHS-MAX-SIMUL:" + std::to_string(t.limit) + " exceeded");
			if (!at_limit && e.sp.norun) return Verdict::fail(std::string(tb) + "the occurrence of " + e.sp.uid + " is reported as not run although only " + std::to_string(t.running) + " of its executions are running (limit " + (t.limit < 0 ? std::string("unset") : std::to_string(t.limit)) + ")");
			if (e.sp.norun) t.refused++; else { t.running++; t.started++; t.maxrun = std::max(t.maxrun, t.running); pid_uid[e.sp.pid] = e.sp.uid; if (t.refused) t.ran_after_refusal = true;
				for (auto &kv : tk) if (kv.first != e.sp.uid && kv.second.limit >= 0 && kv.second.running >= kv.second.limit) other_at_limit_while_started = true; }
		} else if (e.k == Ev::TIME) { now = e.t;
		} else if (e.k == Ev::DUMP) {
			for (auto &r : e.rows) { auto it = tk.find(r.uid); if (it == tk.end()) continue; const Tk &t = it->second;
				if (t.last_occ > 0 && now > t.last_occ + 10 && t.running == 0) return Verdict::fail("task " + r.uid + " is past its last occurrence and has no execution running but is still in the daemon's table"); }
		} else if (e.k == Ev::EXIT) { auto p = pid_uid.find(e.pid); if (p != pid_uid.end()) { tk[p->second].running--; pid_uid.erase(p); } }
	}
	Verdict v; bool refused = false, again = false, full = false; for (auto &kv : tk) { refused |= kv.second.refused > 0; again |= kv.second.ran_after_refusal; full |= kv.second.limit > 0 && kv.second.maxrun == kv.second.limit; }
	v.nontrivial = refused && full;
	{ size_t nsub = 0, p = 0; while ((p = script.find("SUBMIT ", p)) != std::string::npos) { nsub++; p += 7; } if (nsub > tk.size()) v.classes.push_back("task-resubmitted"); }
	if (refused) v.classes.push_back("limit-hit"); if (again) v.classes.push_back("runs-again-after-refusal"); if (other_at_limit_while_started) v.classes.push_back("other-task-started-while-one-at-limit");
	for (auto &kv : tk) v.classes.push_back(kv.second.limit < 0 ? "N/unset" : kv.second.limit == 1 ? "N/1" : kv.second.limit < 5 ? "N/2-4" : kv.second.limit < 62 ? "N/5-61" : "N/62");
	v.classes.push_back(nspawn < 10 ? "spawns/<10" : nspawn < 100 ? "spawns/10-99" : "spawns/100+");
	return v;
}

Verdict prop_replay(Ctx &c, const std::string &t) { g_trace = c.getoptl("trace", 0) != 0; return judge_script(t); }

void prop_gen(Ctx &c) {
	bool survey = c.getoptl("survey", 0) != 0;
	int maxops = (int)c.getoptl("maxops", 80);
	std::string params = "seed=" + std::to_string(c.seed) + " max_success=" + std::to_string(c.cases) + " max_size=" + std::to_string(c.size) + " max_discard_ratio=20";
	setenv("RC_PARAMS", params.c_str(), 1);
	using rgen::R;
	auto genTask = rc::gen::tuple(R(0, 9), R(1, 62), R(1, 6), R(0, 30));
	auto genOp = rc::gen::tuple(R(0, 100), R(1, 12), R(0, 500), R(0, 5));
	rc::check("C12", [&]() {
		if (c.shrink_exhausted()) return;
		int ntasks = *R(1, 4);
		auto tasks = *rc::gen::container<std::vector<std::tuple<int, int, int, int>>>((size_t)ntasks, genTask);
		auto ops = *rc::gen::container<std::vector<std::tuple<int, int, int, int>>>((size_t)maxops, genOp);
		size_t nops = 6 + (size_t)*R(0, maxops - 6);
		std::string script = "USERS 1000 1001\n";
		double now = T0;
		std::vector<std::string> sub;   // the requests that queued the tasks, for re-submission later
		for (size_t i = 0; i < tasks.size(); i++) {
			int sel = std::get<0>(tasks[i]); long lim = sel < 3 ? 1 : sel < 5 ? 2 : sel < 6 ? 3 : sel < 7 ? std::get<1>(tasks[i]) : sel < 8 ? 62 : -1;
			std::vector<std::string> lines; lines.push_back("RRULE:FREQ=SECONDLY;INTERVAL=" + std::to_string(std::get<2>(tasks[i])) + ";COUNT=" + std::to_string(lim > 5 ? 90 : 40));
			if (lim >= 0) lines.push_back("X-ECHS-MAX-SIMUL:" + std::to_string(lim));
			sub.push_back(submit_op(1000 + (unsigned)(i & 1), event_ics("job" + std::to_string(i), (int64_t)T0 + 1 + std::get<3>(tasks[i]), lines)));
			script += sub.back();
		}
		bool resubmit = *R(0, 4) == 0;   // 1 schedule in 4: tasks are submitted again (unchanged) while executions of theirs may be running; those still count
		for (size_t i = 0; i < nops && i < ops.size(); i++) {
			auto &o = ops[i]; int sel = std::get<0>(o);
			if (sel < 55) { int lc = std::get<3>(o); double late = lc < 3 ? 0.001 : lc == 3 ? 0.4 : lc == 4 ? 1.0 : 7.5; now += std::get<1>(o); char b[96]; snprintf(b, sizeof b, "ADV %.3f %.3f\n", now, late); script += b; now += late; }
			else if (sel < 62 && resubmit) script += sub[(size_t)std::get<2>(o) % sub.size()];
			else if (sel < 90) script += "EXITN " + std::to_string(std::get<2>(o)) + "\n";
			else if (sel < 96) script += "EXITALL\n";
			else script += "DUMP\n";
		}
		{ char b[96]; now += 700; snprintf(b, sizeof b, "ADV %.3f 0.001\nEXITALL\nDUMP\n", now); script += b; }
		Verdict v = judge_script(script);
		c.st.record(script, v);
		if (v.k == Verdict::FAIL && survey) { c.st.survey_add(v.msg.substr(v.msg.find(':') == std::string::npos ? 0 : v.msg.find(':'), 70), script.substr(0, 30000) + " :: " + v.msg); return; }
		if (v.k == Verdict::FAIL) { c.note_fail(script, v.msg); RC_FAIL(v.msg); }
	});
}
