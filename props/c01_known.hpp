// Narrow syntactic predicates for the open known findings of C01 / C16.
// A predicate is consulted only while its class is active, i.e. while the
// corresponding `open:` entry of known_findings.txt still reproduces.
#pragma once
#include "harness.hpp"
#include "rrule_ref.hpp"

namespace c01known {
inline std::string match(const vh::Ctx &ctx, const rref::Rule &r, int64_t start, bool date_only, const rref::Result &ref) {
	(void)start; (void)date_only; (void)ref;
	// BYSETPOS is not implemented for FREQ=WEEKLY and finer (the part is ignored)
	if (ctx.excl("bysetpos_weekly_or_finer") && !r.bysetpos.empty() && r.freq >= rref::WEEKLY) return "bysetpos_weekly_or_finer";
	// YEARLY/MONTHLY: BYSETPOS is applied to the set of days before BYHOUR/BYMINUTE/BYSECOND expansion
	if (ctx.excl("bysetpos_with_time_parts") && !r.bysetpos.empty() && r.has_time_parts()) return "bysetpos_with_time_parts";
	// BYYEARDAY as a limit on HOURLY/MINUTELY/SECONDLY rules is mis-evaluated
	if (ctx.excl("subdaily_byyearday") && !r.byyearday.empty() && r.freq >= rref::HOURLY) return "subdaily_byyearday";
	// YEARLY;BYWEEKNO: weeks 1/52/53 and negative week numbers are taken within the calendar year instead of the ISO week-year, BYMONTH is not applied
	if (ctx.excl("yearly_byweekno_edge") && r.freq == rref::YEARLY && !r.byweekno.empty()) {
		bool edge = !r.bymonth.empty();
		for (int w : r.byweekno) if (w == 1 || w >= 52 || w == -1 || w == -2 || w <= -52) edge = true;   // negative weeks in mid-year count from the right end correctly
		if (edge) return "yearly_byweekno_edge";
	}
	// YEARLY;BYYEARDAY limited by BYDAY / BYMONTH
	if (ctx.excl("yearly_byyearday_limited") && r.freq == rref::YEARLY && !r.byyearday.empty() && (!r.byday.empty() || !r.bymonth.empty())) return "yearly_byyearday_limited";
	return "";
}
}
