// Shared worker harness for the echse property checks.
//  - fork sandbox: every call into the code under test happens in a forked
//    child with a CPU budget; crash / hang become ordinary failing values
//  - counters, class histogram, distinct-nontrivial hash set, samples
//  - tiny flat-JSON writer/reader for worker results and replay files
// No echse header is included here.
#pragma once
#include <cstdint>
#include <cstdio>
#include <cstdlib>
#include <cstdarg>
#include <cstring>
#include <cerrno>
#include <csignal>
#include <string>
#include <vector>
#include <map>
#include <set>
#include <unordered_set>
#include <functional>
#include <sstream>
#include <fstream>
#include <algorithm>
#include <unistd.h>
#include <fcntl.h>
#include <poll.h>
#include <sys/wait.h>
#include <sys/resource.h>
#include <sys/time.h>
#include <time.h>

namespace vh {

// ---------- small utils
inline uint64_t fnv1a(const std::string &s, uint64_t h = 1469598103934665603ULL) {
	for (unsigned char c : s) { h ^= c; h *= 1099511628211ULL; }
	return h;
}

inline std::string jesc(const std::string &s) {
	std::string o; o.reserve(s.size() + 8);
	for (unsigned char c : s) {
		switch (c) {
		case '"': o += "\\\""; break;
		case '\\': o += "\\\\"; break;
		case '\n': o += "\\n"; break;
		case '\r': o += "\\r"; break;
		case '\t': o += "\\t"; break;
		default:
			if (c < 0x20 || c >= 0x7f) { char b[8]; snprintf(b, sizeof b, "\\u%04x", c); o += b; }
			else o += (char)c;
		}
	}
	return o;
}

// read a top-level string field "key": "..." of a JSON text written by us
inline bool jget(const std::string &js, const std::string &key, std::string &out) {
	std::string pat = "\"" + key + "\":";
	size_t p = js.find(pat);
	if (p == std::string::npos) return false;
	p += pat.size();
	while (p < js.size() && (js[p] == ' ')) p++;
	if (p >= js.size() || js[p] != '"') return false;
	p++;
	out.clear();
	while (p < js.size() && js[p] != '"') {
		if (js[p] == '\\' && p + 1 < js.size()) {
			char c = js[p + 1];
			switch (c) {
			case 'n': out += '\n'; p += 2; break;
			case 'r': out += '\r'; p += 2; break;
			case 't': out += '\t'; p += 2; break;
			case 'u': {
				unsigned v = (unsigned)strtoul(js.substr(p + 2, 4).c_str(), nullptr, 16);
				out += (char)(unsigned char)v; p += 6; break; }
			default: out += c; p += 2; break;
			}
		} else out += js[p++];
	}
	return true;
}

inline std::string slurp(const std::string &fn) {
	std::ifstream f(fn, std::ios::binary);
	std::stringstream ss; ss << f.rdbuf(); return ss.str();
}

inline double now_s() {
	struct timespec ts; clock_gettime(CLOCK_MONOTONIC, &ts);
	return ts.tv_sec + ts.tv_nsec * 1e-9;
}

// ---------- sandbox
struct SbxResult {
	enum St { OK, CRASH, TIMEOUT } st = OK;
	std::string out;   // what the child wrote to its result pipe
	std::string err;   // head of child's stderr (sanitizer report)
	int sig = 0, code = 0;
	bool ok() const { return st == OK; }
	std::string describe() const {
		if (st == OK) return "ok";
		std::string s = st == TIMEOUT ? "TIMEOUT(cpu budget)" : "CRASH";
		s += " sig=" + std::to_string(sig) + " code=" + std::to_string(code);
		if (!err.empty()) {
			// first interesting line of sanitizer output
			size_t p = err.find("ERROR:");
			if (p == std::string::npos) p = err.find("runtime error");
			std::string e = p == std::string::npos ? err.substr(0, 300) : err.substr(p, 300);
			s += " :: " + e;
		}
		return s;
	}
};

struct Out {
	int fd;
	std::string buf;
	void put(const std::string &s) { buf += s; if (buf.size() > (1u << 16)) flush(); }
	void printf(const char *fmt, ...) __attribute__((format(printf, 2, 3))) {
		char b[1024]; va_list ap; va_start(ap, fmt); int n = vsnprintf(b, sizeof b, fmt, ap); va_end(ap);
		if (n > 0) put(std::string(b, std::min<size_t>((size_t)n, sizeof b - 1)));
	}
	void flush() {
		size_t o = 0;
		while (o < buf.size()) { ssize_t n = ::write(fd, buf.data() + o, buf.size() - o); if (n <= 0) { if (errno == EINTR) continue; break; } o += (size_t)n; }
		buf.clear();
	}
};

// Run fn in a forked child.  cpu_s: CPU seconds budget (RLIMIT_CPU is whole
// seconds, so an ITIMER_VIRTUAL gives sub-second resolution); wall budget is
// 6x cpu_s + 2 to catch sleeps.
inline SbxResult sandbox(const std::function<void(Out &)> &fn, double cpu_s = 10.0,
			 size_t max_out = 64u << 20) {
	int po[2], pe[2];
	SbxResult r;
	if (pipe(po) || pipe(pe)) { perror("pipe"); abort(); }
	fflush(stdout); fflush(stderr);
	pid_t pid = fork();
	if (pid < 0) { perror("fork"); abort(); }
	if (pid == 0) {
		close(po[0]); close(pe[0]);
		dup2(pe[1], 2); close(pe[1]);
		struct itimerval it; memset(&it, 0, sizeof it);
		it.it_value.tv_sec = (time_t)cpu_s; it.it_value.tv_usec = (suseconds_t)((cpu_s - (time_t)cpu_s) * 1e6);
		signal(SIGVTALRM, SIG_DFL);
		setitimer(ITIMER_VIRTUAL, &it, nullptr);
		struct rlimit rl; rl.rlim_cur = (rlim_t)(cpu_s * 2 + 2); rl.rlim_max = rl.rlim_cur + 1;
		setrlimit(RLIMIT_CPU, &rl);
		signal(SIGALRM, SIG_DFL);
		alarm((unsigned)(cpu_s * 6 + 2));
		rl.rlim_cur = rl.rlim_max = 0; setrlimit(RLIMIT_CORE, &rl);
		Out o{po[1], {}};
		fn(o);
		o.flush();
		_exit(0);
	}
	close(po[1]); close(pe[1]);
	struct pollfd pf[2] = {{po[0], POLLIN, 0}, {pe[0], POLLIN, 0}};
	int open_n = 2;
	char buf[65536];
	while (open_n > 0) {
		int k = poll(pf, 2, -1);
		if (k < 0) { if (errno == EINTR) continue; break; }
		for (int i = 0; i < 2; i++) {
			if (pf[i].fd < 0 || !(pf[i].revents & (POLLIN | POLLHUP | POLLERR))) continue;
			ssize_t n = read(pf[i].fd, buf, sizeof buf);
			if (n <= 0) { close(pf[i].fd); pf[i].fd = -1; open_n--; continue; }
			if (i == 0) { if (r.out.size() < max_out) r.out.append(buf, (size_t)n); }
			else if (r.err.size() < 8192) r.err.append(buf, std::min<size_t>((size_t)n, 8192 - r.err.size()));
		}
	}
	int st = 0;
	while (waitpid(pid, &st, 0) < 0 && errno == EINTR);
	if (WIFSIGNALED(st)) {
		r.sig = WTERMSIG(st);
		r.st = (r.sig == SIGVTALRM || r.sig == SIGXCPU || r.sig == SIGALRM || r.sig == SIGKILL) ? SbxResult::TIMEOUT : SbxResult::CRASH;
	} else if (WIFEXITED(st) && WEXITSTATUS(st) != 0) {
		r.code = WEXITSTATUS(st); r.st = SbxResult::CRASH;
	}
	return r;
}

// ---------- verdicts and stats
struct Verdict {
	enum K { PASS, FAIL, SKIP_KNOWN, INCONCLUSIVE, DISCARD } k = PASS;
	std::string msg;          // for FAIL: what differs
	bool nontrivial = false;
	std::vector<std::string> classes;
	static Verdict pass() { return {}; }
	static Verdict fail(const std::string &m) { Verdict v; v.k = FAIL; v.msg = m; return v; }
	static Verdict known(const std::string &cls) { Verdict v; v.k = SKIP_KNOWN; v.msg = cls; return v; }
	static Verdict inconclusive(const std::string &m) { Verdict v; v.k = INCONCLUSIVE; v.msg = m; return v; }
};

struct Stats {
	uint64_t evaluations = 0, inconclusive = 0, failures = 0;
	std::map<std::string, uint64_t> classes, excluded;
	std::unordered_set<uint64_t> nt_hashes;
	std::vector<std::string> samples;
	std::map<std::string, int64_t> extra;   // free-form numeric facts
	std::map<std::string, std::pair<uint64_t, std::string>> survey;   // development aid: failures by signature, first sample each
	void survey_add(const std::string &sig, const std::string &sample) { auto &e = survey[sig]; if (e.first++ == 0) e.second = sample; }
	bool exhaustive = false;
	size_t max_samples = 12;
	uint64_t sample_stride = 1, nt_seen = 0;

	void record(const std::string &case_text, const Verdict &v) {
		if (v.k == Verdict::DISCARD) return;
		if (v.k == Verdict::SKIP_KNOWN) { excluded[v.msg]++; return; }
		evaluations++;
		if (v.k == Verdict::INCONCLUSIVE) { inconclusive++; return; }
		if (v.k == Verdict::FAIL) failures++;
		for (auto &c : v.classes) classes[c]++;
		if (v.nontrivial) {
			nt_hashes.insert(fnv1a(case_text));
			nt_seen++;
			// keep a spread of samples: first few, then exponentially sparser
			if (nt_seen % sample_stride == 0) {
				if (samples.size() < max_samples) samples.push_back(case_text.substr(0, 600));
				else { samples[(nt_seen / sample_stride) % max_samples] = case_text.substr(0, 600); }
				if (samples.size() >= max_samples && nt_seen / sample_stride >= 2 * max_samples) sample_stride *= 4;
			}
		}
	}
	// bulk recording for cheap exhaustive loops
	void bulk(uint64_t n_eval, uint64_t n_nt_distinct_offset_hash_base, uint64_t n_nt) {
		evaluations += n_eval;
		for (uint64_t i = 0; i < n_nt; i++) nt_hashes.insert(n_nt_distinct_offset_hash_base + i);
	}
};

struct Failure { bool have = false; std::string case_text, msg; };

struct Ctx {
	std::string mode = "gen";     // gen | replay
	std::string tier = "quick";
	uint64_t seed = 1;
	int worker = 0, nworkers = 1;
	uint64_t cases = 100;
	int size = 100;
	std::set<std::string> exclude;  // active known-finding class predicates
	std::string out_file, replay_file, fail_file;
	std::map<std::string, std::string> opt;
	Stats st;
	Failure fail;
	uint64_t nt_bulk = 0;   // non-trivial distinct cases counted in bulk (exhaustive loops)
	bool excl(const std::string &c) const { return exclude.count(c) != 0; }
	// shrinking budget: once a failure is on record, at most `shrink_budget` further property-body
	// invocations are spent on shrinking; afterwards bodies return at once so that rapidcheck stops
	uint64_t shrink_budget = 400, shrink_used = 0;
	bool shrink_exhausted() { return fail.have && ++shrink_used > shrink_budget; }
	std::string getopt(const std::string &k, const std::string &d = "") const { auto i = opt.find(k); return i == opt.end() ? d : i->second; }
	long getoptl(const std::string &k, long d) const { auto i = opt.find(k); return i == opt.end() ? d : atol(i->second.c_str()); }

	// record a failure; the file is overwritten by every failing call so after
	// shrinking it holds the minimal counterexample
	void note_fail(const std::string &case_text, const std::string &msg) {
		fail.have = true; fail.case_text = case_text; fail.msg = msg;
		// a hang costs its whole CPU budget on every shrink attempt: spend few attempts on it
		if (msg.find("did not return within") != std::string::npos || msg.find("did not finish") != std::string::npos || msg.find("TIMEOUT") != std::string::npos) shrink_budget = std::min<uint64_t>(shrink_budget, shrink_used + 12);
		if (!fail_file.empty()) {
			std::ofstream f(fail_file, std::ios::trunc);
			f << "{\"case\": \"" << jesc(case_text) << "\",\n \"message\": \"" << jesc(msg) << "\",\n \"seed\": \"" << seed << "\", \"worker\": \"" << worker << "\"}\n";
		}
	}
};

inline void write_result(const Ctx &c, double wall) {
	if (c.out_file.empty()) return;
	std::ofstream f(c.out_file, std::ios::trunc);
	f << "{\"evaluations\": " << c.st.evaluations << ", \"inconclusive\": " << c.st.inconclusive
	  << ", \"failures\": " << c.st.failures << ", \"nt_bulk\": " << c.nt_bulk
	  << ", \"exhaustive\": " << (c.st.exhaustive ? "true" : "false") << ", \"wall_s\": " << wall << ",\n \"classes\": {";
	bool first = true;
	for (auto &kv : c.st.classes) { f << (first ? "" : ", ") << "\"" << jesc(kv.first) << "\": " << kv.second; first = false; }
	f << "},\n \"excluded_known\": {";
	first = true;
	for (auto &kv : c.st.excluded) { f << (first ? "" : ", ") << "\"" << jesc(kv.first) << "\": " << kv.second; first = false; }
	f << "},\n \"extra\": {";
	first = true;
	for (auto &kv : c.st.extra) { f << (first ? "" : ", ") << "\"" << jesc(kv.first) << "\": " << kv.second; first = false; }
	f << "},\n \"survey\": {";
	first = true;
	for (auto &kv : c.st.survey) { f << (first ? "" : ", ") << "\"" << jesc(kv.first) << "\": [" << kv.second.first << ", \"" << jesc(kv.second.second) << "\"]"; first = false; }
	f << "},\n \"samples\": [";
	first = true;
	for (auto &s : c.st.samples) { f << (first ? "" : ", ") << "\"" << jesc(s) << "\""; first = false; }
	f << "],\n \"nt_hashes\": [";
	first = true;
	for (auto h : c.st.nt_hashes) { f << (first ? "" : ",") << "\"" << std::hex << h << std::dec << "\""; first = false; }
	f << "],\n \"fail\": ";
	if (c.fail.have) f << "{\"case\": \"" << jesc(c.fail.case_text) << "\", \"message\": \"" << jesc(c.fail.msg) << "\"}";
	else f << "null";
	f << "}\n";
}

// ---------- main glue: each property TU defines these two
//   void prop_gen(vh::Ctx&)        generated search; fills ctx.st, ctx.fail
//   Verdict prop_replay(vh::Ctx&, const std::string &case_text)
} // namespace vh

void prop_gen(vh::Ctx &);
vh::Verdict prop_replay(vh::Ctx &, const std::string &case_text);

#ifndef VH_NO_MAIN
int main(int argc, char **argv) {
	vh::Ctx c;
	signal(SIGPIPE, SIG_IGN);
	for (int i = 1; i < argc; i++) {
		std::string a = argv[i];
		auto nxt = [&]() -> std::string { return i + 1 < argc ? argv[++i] : ""; };
		if (a == "--gen") c.mode = "gen";
		else if (a == "--replay") { c.mode = "replay"; c.replay_file = nxt(); }
		else if (a == "--tier") c.tier = nxt();
		else if (a == "--seed") c.seed = strtoull(nxt().c_str(), nullptr, 10);
		else if (a == "--worker") c.worker = atoi(nxt().c_str());
		else if (a == "--nworkers") c.nworkers = atoi(nxt().c_str());
		else if (a == "--cases") c.cases = strtoull(nxt().c_str(), nullptr, 10);
		else if (a == "--size") c.size = atoi(nxt().c_str());
		else if (a == "--out") c.out_file = nxt();
		else if (a == "--fail-file") c.fail_file = nxt();
		else if (a == "--exclude") { std::stringstream ss(nxt()); std::string t; while (std::getline(ss, t, ',')) if (!t.empty()) c.exclude.insert(t); }
		else if (a == "--opt") { std::string kv = nxt(); size_t p = kv.find('='); if (p != std::string::npos) c.opt[kv.substr(0, p)] = kv.substr(p + 1); }
		else { fprintf(stderr, "unknown arg %s\n", a.c_str()); return 2; }
	}
	double t0 = vh::now_s();
	if (c.mode == "replay") {
		std::string js = vh::slurp(c.replay_file), ct;
		if (!vh::jget(js, "case", ct)) { fprintf(stderr, "replay file has no case field: %s\n", c.replay_file.c_str()); return 2; }
		vh::Verdict v = prop_replay(c, ct);
		if (v.k == vh::Verdict::FAIL) { printf("REPLAY-FAIL %s\n", v.msg.c_str()); return 1; }
		if (v.k == vh::Verdict::INCONCLUSIVE) { printf("REPLAY-INCONCLUSIVE %s\n", v.msg.c_str()); return 3; }
		printf("REPLAY-PASS\n");
		return 0;
	}
	prop_gen(c);
	vh::write_result(c, vh::now_s() - t0);
	return c.fail.have ? 1 : 0;
}
#endif
