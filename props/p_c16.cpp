// C16  Occurrence streams are ordered and bounded for every rule, extensions
// included.  Invariant check (no reference set needed): strictly increasing,
// >= DTSTART, <= UNTIL, never more than COUNT, end-of-stream is sticky.
#include "harness.hpp"
#include "strmcase.hpp"
#include "rulegen.hpp"
#include "tzif_ref.hpp"
#include "c01_known.hpp"

using namespace vh;
using rref::Rule;

struct Ev {
	std::vector<Rule> rules;
	int64_t start = 0; bool date_only = false;
	std::string tzid;            // DTSTART;TZID=
	std::string dtstart_scale;   // DTSTART;SCALE= (then `hijri` holds the date text)
	std::string hijri_date;
	std::vector<int64_t> rdates;
	int npop = 3000;
};

static const char *ZONES[] = {"Europe/Berlin", "America/New_York", "Australia/Lord_Howe", "Asia/Kolkata", "Pacific/Chatham", "America/Sao_Paulo", "Africa/Casablanca", "Asia/Tehran"};
static const char *HSCALES[] = {"HIJRI", "HIJRI.IA", "HIJRI.IC", "HIJRI.IIA", "HIJRI.IIC", "HIJRI.IIIA", "HIJRI.IIIC", "HIJRI.IVA", "HIJRI.IVC", "HIJRI.UMMULQURA", "HIJRI.DIYANET"};

static std::string render(const Ev &e) {
	std::vector<std::string> lines;
	for (auto &r : e.rules) lines.push_back("RRULE:" + r.text());
	if (!e.rdates.empty()) { std::string s = e.date_only ? "RDATE;VALUE=DATE:" : "RDATE:"; for (size_t i = 0; i < e.rdates.size(); i++) { if (i) s += ","; s += civil::fmt_ical(e.rdates[i], e.date_only); } lines.push_back(s); }
	std::string body = "BEGIN:VEVENT\nUID:c16@verif\nSUMMARY:c16\n";
	if (!e.dtstart_scale.empty()) body += "DTSTART;VALUE=DATE;SCALE=" + e.dtstart_scale + ":" + e.hijri_date + "\n";
	else if (!e.tzid.empty()) { std::string t = civil::fmt_ical(e.start, false); t.pop_back(); body += "DTSTART;TZID=" + e.tzid + ":" + t + "\n"; }
	else if (e.date_only) body += "DTSTART;VALUE=DATE:" + civil::fmt_ical(e.start, true) + "\n";
	else body += "DTSTART:" + civil::fmt_ical(e.start, false) + "\n";
	for (auto &l : lines) body += l + "\n";
	body += "END:VEVENT\n";
	return sc::vcal(body);
}

// the case text is self-contained: meta line + the calendar text
static std::string ctext(const Ev &e, int64_t lower, bool have_lower, int64_t until, bool have_until, long count_bound) {
	std::string m = "npop=" + std::to_string(e.npop) + " lower=" + (have_lower ? std::to_string(lower) : "none") + " until=" + (have_until ? std::to_string(until) : "none") + " countbound=" + std::to_string(count_bound) + " dateonly=" + std::to_string((int)(e.date_only || !e.dtstart_scale.empty()));
	return m + "\n" + render(e);
}

static Verdict judge_text(const std::string &txt) {
	size_t nl = txt.find('\n'); if (nl == std::string::npos) return Verdict::inconclusive("bad case");
	std::string meta = txt.substr(0, nl), ics = txt.substr(nl + 1);
	auto field = [&](const char *k) -> std::string { size_t p = meta.find(std::string(k) + "="); if (p == std::string::npos) return ""; p += strlen(k) + 1; size_t e = meta.find(' ', p); return meta.substr(p, e == std::string::npos ? e : e - p); };
	int npop = atoi(field("npop").c_str()); if (npop <= 0) npop = 3000;
	bool have_lower = field("lower") != "none", have_until = field("until") != "none";
	int64_t lower = atoll(field("lower").c_str()), until = atoll(field("until").c_str());
	long cb = atol(field("countbound").c_str());
	sc::Unrolled u = sc::unroll_text(ics, npop, SUT_F_NO_ATTRS, 10.0);
	// a stream that does not answer is C09's subject (termination), not an ordering violation
	if (u.sbx.st == SbxResult::TIMEOUT) return Verdict::inconclusive("no answer within the CPU budget (see C09)");
	if (!u.sbx.ok()) return Verdict::fail(u.sbx.describe());
	if (u.tasks.empty()) { Verdict v; v.k = Verdict::DISCARD; return v; }   // event not accepted: nothing to judge
	auto E = u.tasks[0];
	// the design range ends with 2099: later occurrences are not judged
	static const int64_t RANGE_END = civil::to_ms(2099, 12, 31, 23, 59, 59);
	for (size_t i = 0; i < E.size(); i++) if (E[i].ms > RANGE_END) { E.resize(i); break; }
	for (size_t i = 0; i < E.size(); i++) {
		if (E[i].ms < -4e18) return Verdict::fail("occurrence #" + std::to_string(i + 1) + " is no calendar date");
		if (i && E[i].ms <= E[i - 1].ms) return Verdict::fail("occurrence #" + std::to_string(i + 1) + " = " + civil::fmt_iso(E[i].ms) + " does not come after #" + std::to_string(i) + " = " + civil::fmt_iso(E[i - 1].ms));
		if (have_lower && E[i].ms < lower) return Verdict::fail("occurrence #" + std::to_string(i + 1) + " = " + civil::fmt_iso(E[i].ms) + " lies before DTSTART " + civil::fmt_iso(lower));
		if (have_until && E[i].ms > until) return Verdict::fail("occurrence #" + std::to_string(i + 1) + " = " + civil::fmt_iso(E[i].ms) + " lies after UNTIL " + civil::fmt_iso(until));
	}
	if (cb >= 0 && (long)E.size() > cb) return Verdict::fail(std::to_string(E.size()) + " occurrences delivered, COUNT allows " + std::to_string(cb));
	Verdict v; v.nontrivial = E.size() >= 65;
	v.classes.push_back(E.size() >= 3000 ? "len/3000+" : E.size() >= 129 ? "len/129-2999" : E.size() >= 65 ? "len/65-128" : E.size() >= 1 ? "len/1-64" : "len/0");
	return v;
}

Verdict prop_replay(Ctx &, const std::string &t) { Verdict v = judge_text(t); if (v.k == Verdict::DISCARD) return Verdict::pass(); return v; }

void prop_gen(Ctx &c) {
	int npop = (int)c.getoptl("npop", 3000);
	bool survey = c.getoptl("survey", 0) != 0;
	std::string params = "seed=" + std::to_string(c.seed) + " max_success=" + std::to_string(c.cases) + " max_size=" + std::to_string(c.size) + " max_discard_ratio=20";
	setenv("RC_PARAMS", params.c_str(), 1);
	using rgen::R;
	auto genExt = rc::gen::tuple(R(0, 100), R(-366, 367), R(0, 100), R(-30, 31), R(0, 4), R(0, 100), rgen::signed_list(366), R(0, 100), R(0, 11));
	auto genRule = rc::gen::map(rc::gen::pair(rgen::rule_case(true), genExt), [](std::pair<rgen::RuleCase, std::tuple<int, int, int, int, int, int, std::vector<int>, int, int>> p) {
		rgen::RuleCase g = p.first; auto &x = p.second;
		// SHIFT: days and/or business days with direction variants
		if (std::get<0>(x) < 25 && g.rule.freq <= rref::MONTHLY) {
			std::string s = ";SHIFT=";
			bool days = std::get<2>(x) < 60, bdays = std::get<2>(x) >= 40;
			if (days) s += std::to_string(std::get<1>(x));
			if (bdays) { if (days) s += ","; s += std::to_string(std::get<3>(x)) + "B"; int dir = std::get<4>(x); if (dir == 1) s += "+"; else if (dir == 2) s += "-"; }
			g.rule.extra += s;
		}
		if (std::get<5>(x) < 12 && g.rule.freq == rref::YEARLY) { std::string s = ";BYEASTER="; auto &v = std::get<6>(x); for (size_t i = 0; i < v.size(); i++) { if (i) s += ","; s += std::to_string(v[i]); } g.rule.extra += s; }
		if (std::get<7>(x) < 10 && g.rule.freq <= rref::MONTHLY) g.rule.extra += std::string(";SCALE=") + HSCALES[std::get<8>(x)];
		return g;
	});
	auto genEv = rc::gen::map(rc::gen::tuple(rc::gen::container<std::vector<rgen::RuleCase>>(3, genRule), R(0, 100), R(0, 100), R(0, 8), rc::gen::container<std::vector<int>>(6, R(0, 5000)), R(0, 100), rc::gen::tuple(R(0, 11), R(1356, 1450), R(1, 13), R(1, 30))),
		[npop](std::tuple<std::vector<rgen::RuleCase>, int, int, int, std::vector<int>, int, std::tuple<int, int, int, int>> t) {
			Ev e; e.npop = npop;
			auto &g = std::get<0>(t);
			int nr = std::get<1>(t) < 75 ? 1 : std::get<1>(t) < 92 ? 2 : 3;
			e.date_only = g[0].date_only; e.start = g[0].seed_ms;
			if (e.date_only) e.start -= civil::floormod(e.start, civil::MS_DAY);
			for (int i = 0; i < nr; i++) {
				Rule r = g[(size_t)i].rule;
				if (e.date_only) { r.byhour.clear(); r.byminute.clear(); r.bysecond.clear(); if (r.freq > rref::DAILY) r.freq = rref::DAILY; }
				// UNTIL: an arbitrary instant after DTSTART (not synchronised)
				if (g[(size_t)i].until_mode) { r.has_until = true; r.until_date = e.date_only; int64_t span = (int64_t)g[(size_t)i].until_index * (r.freq >= rref::HOURLY ? 3600000LL : r.freq == rref::DAILY ? 30 * civil::MS_DAY : 500 * civil::MS_DAY); r.until = e.start + span; if (e.date_only) r.until -= civil::floormod(r.until, civil::MS_DAY); else r.until -= civil::floormod(r.until, 1000); r.count = -1; }
				e.rules.push_back(r);
			}
			int zsel = std::get<2>(t);
			if (!e.date_only && zsel < 20) e.tzid = ZONES[std::get<3>(t)];
			auto &hs = std::get<6>(t);
			if (e.date_only && zsel >= 90) {
				char b[32]; snprintf(b, sizeof b, "%04d%02d%02d", std::get<1>(hs), std::get<2>(hs), std::get<3>(hs));
				e.dtstart_scale = HSCALES[std::get<0>(hs)]; e.hijri_date = b;
			}
			if (std::get<5>(t) < 25) {
				auto &rd = std::get<4>(t); size_t n = 1 + (size_t)rd[0] % 5;
				for (size_t i = 0; i < n; i++) { int64_t o = e.start + (int64_t)(rd[i + 1] - 500) * (e.date_only ? civil::MS_DAY : 3600000LL); e.rdates.push_back(o); }
			}
			return e; });
	rc::check("C16", [&]() {
		if (c.shrink_exhausted()) return;
		Ev e = *genEv;
		// bounds
		bool have_lower = e.dtstart_scale.empty(), have_until = true; int64_t lower = e.start, until = INT64_MIN; long cb = 0;
		if (!e.tzid.empty()) {
			static std::map<std::string, tzref::Zone> zc; auto it = zc.find(e.tzid); if (it == zc.end()) it = zc.emplace(e.tzid, tzref::load(e.tzid)).first;
			// sound lower bound whatever offset applies: local time minus the zone's largest UTC offset (exact conversion is C07's subject)
			int32_t mx = INT32_MIN; for (int32_t o : it->second.utoff) mx = std::max(mx, o);
			if (!it->second.ok) RC_DISCARD("zone not readable");
			lower = e.start - (int64_t)mx * 1000;
		}
		{
			// open known findings (narrow classes), any rule of the event matching
			std::string kc;
			for (auto &r : e.rules) {
				bool scale = r.extra.find("SCALE=") != std::string::npos;
				if (c.excl("scale_until") && scale && r.has_until) kc = "scale_until";
				if (c.excl("tzid_subdaily_gap") && !e.tzid.empty() && (r.freq >= rref::HOURLY || r.has_time_parts())) kc = "tzid_subdaily_gap";
				if (c.excl("tzid_until") && !e.tzid.empty() && r.has_until) kc = "tzid_until";
				if (c.excl("scale_shift") && scale && r.extra.find("SHIFT=") != std::string::npos) kc = "scale_shift";
				size_t sp = r.extra.find("SHIFT=");
				if (c.excl("monthly_large_shift") && sp != std::string::npos && r.freq == rref::MONTHLY) {
					int d = 0, b = 0; const char *q = r.extra.c_str() + sp + 6; char *on;
					long v1 = strtol(q, &on, 10); if (*on == 'B' || *on == 'b') b = (int)v1; else { d = (int)v1; if (*on == ',') b = (int)strtol(on + 1, &on, 10); }
					if (std::abs(d) + std::abs(b) * 7 / 5 > 27) kc = "monthly_large_shift";
				}
				if (c.excl("shift_two_years") && sp != std::string::npos) {
					int d = 0, b = 0; const char *q = r.extra.c_str() + sp + 6; char *on;
					long v1 = strtol(q, &on, 10); if (*on == 'B' || *on == 'b') b = (int)v1; else { d = (int)v1; if (*on == ',') b = (int)strtol(on + 1, &on, 10); }
					if (std::abs(d) + std::abs(b) * 7 / 5 + 4 >= 365) kc = "shift_two_years";
				}
				if (c.excl("scale_byeaster") && scale && r.text().find("BYEASTER=") != std::string::npos) kc = "scale_byeaster";
				if (c.excl("shift_bday_collision") && sp != std::string::npos && r.extra.find('B', sp) != std::string::npos) kc = "shift_bday_collision";
				rref::Result dummy; std::string k1 = c01known::match(c, r, e.start, e.date_only, dummy);
				if (k1 == "yearly_byweekno_edge") kc = k1;
			}
			if (!kc.empty()) { c.st.record("", Verdict::known(kc)); return; }
		}
		for (auto &r : e.rules) {
			if (r.count >= 0 && cb >= 0) cb += r.count; else cb = -1;
			int64_t u = r.until_date && !e.date_only ? r.until + civil::MS_DAY - 1 : r.until;
			if (!r.has_until) have_until = false; else until = std::max(until, u);
		}
		if (cb >= 0) cb += (long)e.rdates.size();
		// RDATEs are explicit additions: they are bounded by neither DTSTART nor UNTIL
		if (!e.rdates.empty()) { have_until = false; for (int64_t r : e.rdates) if (r < lower) have_lower = false; }
		// UNTIL in a TZID event is written in UTC here (Z form), bounds stay absolute
		std::string txt = ctext(e, lower, have_lower, until, have_until, cb);
		Verdict v = judge_text(txt);
		if (v.k == Verdict::DISCARD) { c.st.extra["event_not_accepted"]++; RC_DISCARD("not accepted"); }
		bool ext = false; for (auto &r : e.rules) if (!r.extra.empty() || r.has_time_parts()) ext = true;
		if (!e.tzid.empty() || !e.dtstart_scale.empty()) ext = true;
		v.nontrivial = v.nontrivial && ext;
		v.classes.push_back(std::string("freq/") + rref::FREQ_NAME[e.rules[0].freq]);
		if (e.rules.size() > 1) v.classes.push_back("multi-rrule");
		if (!e.tzid.empty()) v.classes.push_back("TZID"); if (!e.dtstart_scale.empty()) v.classes.push_back("DTSTART-SCALE");
		if (!e.rdates.empty()) v.classes.push_back("RDATE");
		for (auto &r : e.rules) { if (r.extra.find("SHIFT") != std::string::npos) v.classes.push_back("SHIFT"); if (r.extra.find("EASTER") != std::string::npos) v.classes.push_back("BYEASTER"); if (r.extra.find("SCALE") != std::string::npos) v.classes.push_back("RRULE-SCALE"); if (r.count >= 0) v.classes.push_back("COUNT"); if (r.has_until) v.classes.push_back("UNTIL"); }
		c.st.record(txt, v);
		if (v.k == Verdict::FAIL && survey) { c.st.survey_add(v.msg.substr(0, 40) + " | " + v.classes.back(), txt + " :: " + v.msg.substr(0, 300)); return; }
		if (v.k == Verdict::FAIL) { c.note_fail(txt, v.msg); RC_FAIL(v.msg); }
	});
}
