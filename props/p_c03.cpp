// C03  Merged event stream is chronological, complete and duplicate-free.
// Model-based: every constituent is listed through a clone, the model is their
// multiset union by start with identical (start, UID) collapsed; the mux is then
// driven by a generated sequence of peek/pop operations.
#include "harness.hpp"
#include "strmcase.hpp"
#include "rulegen.hpp"
#include <algorithm>
#include <iterator>

using namespace vh;

struct Case { std::string ics; std::string ops; int cap = 400; int mode = 0; };
static std::string ctext(const Case &c) { return "mode=" + std::to_string(c.mode) + " cap=" + std::to_string(c.cap) + " ops=" + c.ops + "\n" + c.ics; }
static bool cparse(const std::string &t, Case &c) {
	size_t nl = t.find('\n'); if (nl == std::string::npos) return false;
	std::string m = t.substr(0, nl); c.ics = t.substr(nl + 1);
	auto field = [&](const char *k) -> std::string { size_t p = m.find(std::string(k) + "="); if (p == std::string::npos) return ""; p += strlen(k) + 1; size_t e = m.find(' ', p); return m.substr(p, e == std::string::npos ? e : e - p); };
	c.mode = atoi(field("mode").c_str()); c.cap = atoi(field("cap").c_str()); c.ops = field("ops");
	return c.cap > 0 && !c.ops.empty();
}

struct Ev3 { int64_t ms; int64_t dur; unsigned long oid; };
static bool parse_ev(const char *p, Ev3 &e) {
	int y, m, d, H, M, S, ms; long long dur; unsigned long oid;
	if (sscanf(p, "%d,%d,%d,%d,%d,%d,%d %lld %lu", &y, &m, &d, &H, &M, &S, &ms, &dur, &oid) != 9) return false;
	if (m < 1 || m > 12 || d < 1 || d > 31) return false;
	e.ms = H == SUT_ALL_DAY ? civil::to_ms(y, m, d) : civil::to_ms(y, m, d, H, M, S, ms == SUT_ALL_SEC ? 0 : ms);
	e.dur = dur; e.oid = oid; return true;
}

// ---- mode 3: the command line tool on several files.  Metamorphic: spreading the events of one calendar over
// several files -- an identical copy of an event may come again in a later file -- must not change what
// `echse unroll` delivers for the single calendar (which the other modes and C01/C02 judge).
static std::string g_echse;
static const char *FILESEP = "=====FILE=====\n";
static bool run_cli(const std::vector<std::string> &files, const std::string &dir, std::vector<std::string> &lines, std::string &err) {
	std::string cmd = "cd '" + dir + "' && timeout 20 '" + g_echse + "' unroll";
	for (size_t i = 0; i < files.size(); i++) { std::string fn = dir + "/f" + std::to_string(i) + ".ics"; FILE *f = fopen(fn.c_str(), "w"); if (!f) { err = "cannot write"; return false; } fwrite(files[i].data(), 1, files[i].size(), f); fclose(f); cmd += " f" + std::to_string(i) + ".ics"; }
	cmd += " 2>&1; echo EXIT=$?";
	FILE *p = popen(cmd.c_str(), "r"); if (!p) { err = "popen"; return false; }
	char b[4096]; std::string out; size_t n; while ((n = fread(b, 1, sizeof b, p)) > 0) out.append(b, n); pclose(p);
	std::stringstream ss(out); std::string ln; int ex = -1; lines.clear();
	while (std::getline(ss, ln)) { if (ln.compare(0, 5, "EXIT=") == 0) ex = atoi(ln.c_str() + 5); else lines.push_back(ln); }
	if (ex != 0) { err = "echse unroll exited with " + std::to_string(ex) + ": " + out.substr(0, 300); return false; }
	return true;
}
static Verdict judge_files(const Case &c) {
	std::vector<std::string> files; { size_t p = 0; for (;;) { size_t e = c.ics.find(FILESEP, p); files.push_back(c.ics.substr(p, e == std::string::npos ? std::string::npos : e - p)); if (e == std::string::npos) break; p = e + strlen(FILESEP); } }
	if (files.size() < 2) return Verdict::inconclusive("bad files case");
	// the single calendar: every distinct VEVENT once, in order of first appearance
	std::vector<std::string> evs; for (auto &f : files) { size_t p = 0; while ((p = f.find("BEGIN:VEVENT", p)) != std::string::npos) { size_t e = f.find("END:VEVENT\n", p); if (e == std::string::npos) break; std::string ev = f.substr(p, e + 11 - p); if (std::find(evs.begin(), evs.end(), ev) == evs.end()) evs.push_back(ev); p = e; } }
	std::string body; for (auto &e : evs) body += e;
	char tmpl[] = "/tmp/c03f-XXXXXX"; const char *base = getenv("TMPDIR"); std::string t = std::string(base && *base ? base : "/tmp") + "/c03f-XXXXXX"; std::vector<char> tb(t.begin(), t.end()); tb.push_back(0); (void)tmpl;
	if (!mkdtemp(tb.data())) return Verdict::inconclusive("no temp dir");
	std::string dir = tb.data(); std::vector<std::string> one, many; std::string err;
	bool ok1 = run_cli({sc::vcal(body)}, dir, one, err); std::string err2; bool ok2 = ok1 && run_cli(files, dir, many, err2);
	{ std::string rm = "rm -rf '" + dir + "'"; (void)!system(rm.c_str()); }
	if (!ok1) return Verdict::inconclusive("single calendar: " + err);
	if (!ok2 && err2.find("exited with 124") != std::string::npos) return Verdict::inconclusive("wall budget of the command line run");   // `timeout` fired: a busy machine is no verdict
	if (!ok2) return Verdict::fail("several files: " + err2);
	for (size_t i = 1; i < many.size(); i++) if (many[i].substr(0, many[i].find('\t')) < many[i - 1].substr(0, many[i - 1].find('\t'))) return Verdict::fail("several files: occurrence `" + many[i] + "' is delivered after `" + many[i - 1] + "'");
	std::vector<std::string> a = one, b = many; std::sort(a.begin(), a.end()); std::sort(b.begin(), b.end());
	if (a != b) { std::vector<std::string> miss, extra; std::set_difference(a.begin(), a.end(), b.begin(), b.end(), std::back_inserter(miss)); std::set_difference(b.begin(), b.end(), a.begin(), a.end(), std::back_inserter(extra));
		return Verdict::fail("the same events spread over " + std::to_string(files.size()) + " files deliver " + std::to_string(many.size()) + " occurrences instead of " + std::to_string(one.size()) + (miss.empty() ? "" : "; missing e.g. `" + miss[0] + "'") + (extra.empty() ? "" : "; extra e.g. `" + extra[0] + "'")); }
	Verdict v; bool copy = false; { std::set<std::string> seen; for (auto &f : files) { size_t p = 0; while ((p = f.find("\nUID:", p)) != std::string::npos) { size_t e = f.find('\n', p + 1); if (!seen.insert(f.substr(p, e - p)).second) copy = true; p = e; } } }
	v.nontrivial = evs.size() >= 2 && copy; v.classes.push_back("files/" + std::to_string(files.size())); if (copy) v.classes.push_back("files/event-repeated-in-later-file");
	return v;
}

static Verdict judge(const Case &c) {
	if (c.mode == 3) return judge_files(c);
	Verdict v;
	SbxResult r = sandbox([&](Out &o) { sut_buf_t b = {nullptr, 0, 0}; sut_mux_session(c.ics.data(), c.ics.size(), c.ops.c_str(), c.cap, c.mode, &b); if (b.p) o.put(std::string(b.p, b.n)); }, 20.0);
	if (r.st == SbxResult::TIMEOUT) return Verdict::inconclusive("budget");
	if (!r.ok()) return Verdict::fail(r.describe());
	std::stringstream ss(r.out); std::string ln;
	int n = 0; std::vector<std::vector<Ev3>> C; std::vector<bool> ended;
	struct Op { char k; bool end; Ev3 e; }; std::vector<Op> ops;
	while (std::getline(ss, ln)) {
		if (ln.compare(0, 2, "N ") == 0) { n = atoi(ln.c_str() + 2); C.assign((size_t)n, {}); ended.assign((size_t)n, false); }
		else if (ln.compare(0, 2, "C ") == 0) { int i = atoi(ln.c_str() + 2); size_t sp = ln.find(' ', 2); Ev3 e; if (i >= 0 && i < n && sp != std::string::npos && parse_ev(ln.c_str() + sp + 1, e)) C[(size_t)i].push_back(e); else return Verdict::fail("constituent yields a non-date: " + ln); }
		else if (ln.compare(0, 5, "CEND ") == 0) ended[(size_t)atoi(ln.c_str() + 5)] = true;
		else if (ln == "NOMUX" || ln.compare(0, 9, "NOSTREAMS") == 0) { Verdict d; d.k = Verdict::DISCARD; return d; }
		else if (ln[0] == 'P' || ln[0] == 'K') { Op o; o.k = ln[0]; o.end = ln.compare(2, 3, "END") == 0; if (!o.end && !parse_ev(ln.c_str() + 2, o.e)) return Verdict::fail("mux yields a non-date: " + ln); ops.push_back(o); }
	}
	if (n < 1) { Verdict d; d.k = Verdict::DISCARD; return d; }
	// model
	int64_t horizon = INT64_MAX; bool all_ended = true;
	for (int i = 0; i < n; i++) if (!ended[(size_t)i]) { all_ended = false; horizon = std::min(horizon, C[(size_t)i].empty() ? INT64_MIN : C[(size_t)i].back().ms); }
	std::map<std::pair<int64_t, unsigned long>, int> M;   // (ms, oid) -> present (collapsed)
	size_t total = 0, ties = 0;
	for (auto &ci : C) for (auto &e : ci) if (e.ms < horizon) { if (M.emplace(std::make_pair(e.ms, e.oid), 1).second) total++; }
	{ int64_t prev = INT64_MIN; for (auto &kv : M) { if (kv.first.first == prev) ties++; prev = kv.first.first; } }
	// walk the operations
	std::map<std::pair<int64_t, unsigned long>, int> seen;
	int64_t last = INT64_MIN; bool saw_end = false; size_t npop = 0, npeek_between = 0, peeks = 0;
	for (size_t j = 0; j < ops.size(); j++) {
		const Op &o = ops[j];
		if (saw_end && !o.end) return Verdict::fail("op #" + std::to_string(j + 1) + ": an occurrence " + civil::fmt_iso(o.e.ms) + " is delivered after the stream had answered end-of-stream");
		if (o.k == 'K') {
			peeks++;
			// the next pop (if any before another peek difference) must return the same
			size_t q = j + 1; while (q < ops.size() && ops[q].k == 'K') { if (ops[q].end != o.end || (!o.end && (ops[q].e.ms != o.e.ms || ops[q].e.oid != o.e.oid))) return Verdict::fail("two consecutive peeks differ (op #" + std::to_string(j + 1) + ")"); q++; }
			if (q < ops.size()) { const Op &p = ops[q]; if (p.end != o.end || (!o.end && (p.e.ms != o.e.ms || p.e.oid != o.e.oid || p.e.dur != o.e.dur))) return Verdict::fail("peek (op #" + std::to_string(j + 1) + ") shows " + (o.end ? std::string("end") : civil::fmt_iso(o.e.ms)) + " but the following pop returns " + (p.end ? std::string("end") : civil::fmt_iso(p.e.ms)) + ": peeking consumed or altered the stream"); }
			if (npop) npeek_between++;
			continue;
		}
		if (o.end) {
			saw_end = true;
			if (!all_ended) return Verdict::fail("mux answers end-of-stream although a constituent has not ended");
			if (seen.size() < total) { for (auto &kv : M) if (!seen.count(kv.first)) return Verdict::fail("mux ends but " + civil::fmt_iso(kv.first.first) + " (uid #" + std::to_string(kv.first.second) + ") was never delivered"); }
			continue;
		}
		npop++;
		if (o.e.ms >= horizon) break;   // beyond what the model knows
		if (o.e.ms < last) return Verdict::fail("pop #" + std::to_string(npop) + " " + civil::fmt_iso(o.e.ms) + " comes after " + civil::fmt_iso(last) + ": not chronological");
		auto key = std::make_pair(o.e.ms, o.e.oid);
		if (!M.count(key)) return Verdict::fail("pop #" + std::to_string(npop) + " " + civil::fmt_iso(o.e.ms) + " (uid #" + std::to_string(o.e.oid) + ") is no occurrence of any constituent");
		if (seen.count(key)) return Verdict::fail("pop #" + std::to_string(npop) + " " + civil::fmt_iso(o.e.ms) + " (uid #" + std::to_string(o.e.oid) + ") is delivered twice");
		// nothing earlier may have been skipped
		for (auto it = M.begin(); it != M.end() && it->first.first < o.e.ms; ++it) if (!seen.count(it->first)) return Verdict::fail("pop #" + std::to_string(npop) + " is " + civil::fmt_iso(o.e.ms) + " but " + civil::fmt_iso(it->first.first) + " (uid #" + std::to_string(it->first.second) + ") has not been delivered yet: an occurrence was lost");
		seen[key] = 1; last = o.e.ms;
	}
	v.nontrivial = n >= 2 && ties >= 1 && npeek_between >= 1;
	v.classes.push_back("constituents/" + std::string(n == 1 ? "1" : n <= 3 ? "2-3" : n <= 8 ? "4-8" : "9+"));
	v.classes.push_back(c.mode == 0 ? "vmux" : c.mode == 1 ? "mux-variadic" : "vmux-clon");
	if (ties) v.classes.push_back("ties"); if (all_ended) v.classes.push_back("all-finite"); if (saw_end) v.classes.push_back("reached-end");
	return v;
}

Verdict prop_replay(Ctx &cx, const std::string &t) { g_echse = cx.opt["echse"]; Case c; if (!cparse(t, c)) return Verdict::inconclusive("bad case"); Verdict v = judge(c); if (v.k == Verdict::DISCARD) return Verdict::pass(); return v; }

void prop_gen(Ctx &c) {
	bool survey = c.getoptl("survey", 0) != 0; g_echse = c.opt["echse"];
	int maxops = (int)c.getoptl("maxops", 120);
	std::string params = "seed=" + std::to_string(c.seed) + " max_success=" + std::to_string(c.cases) + " max_size=" + std::to_string(c.size) + " max_discard_ratio=20";
	setenv("RC_PARAMS", params.c_str(), 1);
	using rgen::R;
	// one constituent event: kind, uid, parameters
	auto genOne = rc::gen::tuple(R(0, 10), R(0, 3), R(1, 5), R(1, 70), rc::gen::container<std::vector<int>>(8, R(0, 40)), R(0, 4), R(0, 3));
	auto genCase = rc::gen::map(rc::gen::tuple(R(0, 100), rc::gen::container<std::vector<std::tuple<int, int, int, int, std::vector<int>, int, int>>>(40, genOne), R(1990, 2030), R(1, 13), R(1, 28), R(0, 24),
			rc::gen::container<std::vector<int>>((size_t)maxops, R(0, 3)), R(0, 100), R(0, 10)),
		[maxops](auto t) {
			Case cs;
			int nsel = std::get<0>(t); auto &evs = std::get<1>(t);
			int mode = std::get<8>(t) < 6 ? 0 : std::get<8>(t) < 8 ? 1 : 2;
			size_t n = nsel < 10 ? 1 : nsel < 40 ? 2 : nsel < 65 ? 3 : nsel < 80 ? 4 + (size_t)nsel % 3 : nsel < 92 ? 7 + (size_t)nsel % 2 : 9 + (size_t)nsel % 32;
			if (mode == 1 && n > 8) n = nsel % 2 ? 17 : 8;
			int64_t base = civil::to_ms(std::get<2>(t), (unsigned)std::get<3>(t), (unsigned)std::get<4>(t), (unsigned)std::get<5>(t));
			static const char *F[] = {"DAILY", "WEEKLY", "MONTHLY", "HOURLY"};
			std::string body;
			for (size_t i = 0; i < n && i < evs.size(); i++) {
				auto &e = evs[i]; int kind = std::get<0>(e); std::string uid = "u" + std::to_string(std::get<1>(e)) + "@c03";
				int iv = std::get<2>(e), cnt = std::get<3>(e); auto &ofs = std::get<4>(e); int f = std::get<5>(e); int shift = std::get<6>(e);
				int64_t start = base + (int64_t)shift * 86400000LL;      // few distinct phases so that instants coincide
				std::vector<std::string> l;
				if (kind < 3) { std::string s = "RDATE:"; size_t k = 1 + (size_t)cnt % 8; for (size_t j = 0; j < k; j++) { if (j) s += ","; s += civil::fmt_ical(base + (int64_t)ofs[j] * 86400000LL, false); } l.push_back(s); }
				else if (kind < 6) l.push_back(std::string("RRULE:FREQ=") + F[f] + ";INTERVAL=" + std::to_string(iv) + ";COUNT=" + std::to_string(cnt));
				else if (kind < 8) { l.push_back(std::string("RRULE:FREQ=") + F[f] + ";COUNT=" + std::to_string(cnt)); l.push_back(std::string("RRULE:FREQ=") + F[(f + 1) % 3] + ";INTERVAL=" + std::to_string(iv) + ";COUNT=" + std::to_string(1 + cnt / 2)); if (kind == 7) l.push_back("RRULE:FREQ=DAILY;INTERVAL=2;COUNT=" + std::to_string(cnt)); }
				else if (kind < 9) l.push_back(std::string("RRULE:FREQ=") + F[f] + ";INTERVAL=" + std::to_string(iv));      // infinite
				else l.push_back("RRULE:FREQ=DAILY;COUNT=1");                                                                // ends at once
				// 1 rule event in 5 is an all-day event (UIDs of their own): an all-day occurrence starts its day, before any timed one of that date
				if (kind >= 3 && (std::get<3>(e) + (int)i) % 5 == 0) { for (auto &x : l) { size_t hp = x.find("FREQ=HOURLY"); if (hp != std::string::npos) x.replace(hp, 11, "FREQ=DAILY"); } body += sc::vevent("d" + std::to_string(std::get<1>(e)) + "@c03", start, true, l); continue; }
				body += sc::vevent(uid, start, false, l);
			}
			cs.ics = sc::vcal(body);
			if (std::get<8>(t) == 10 || (std::get<8>(t) == 9 && nsel % 2)) {
				// command line surface: finite events with UIDs of their own, spread over 2..3 files, some repeated identically in a later file
				std::vector<std::string> fb(2 + (size_t)nsel % 2); size_t m = std::min<size_t>(std::min(n, evs.size()), 12);
				for (size_t i = 0; i < m; i++) { auto &e = evs[i]; int kind = std::get<0>(e); int iv = std::get<2>(e), cnt = std::get<3>(e); auto &ofs = std::get<4>(e); int f = std::get<5>(e);
					std::vector<std::string> l; if (kind < 3) { std::string s2 = "RDATE:"; size_t k = 1 + (size_t)cnt % 8; for (size_t j = 0; j < k; j++) { if (j) s2 += ","; s2 += civil::fmt_ical(base + (int64_t)ofs[j] * 86400000LL, false); } l.push_back(s2); } else l.push_back(std::string("RRULE:FREQ=") + F[f] + ";INTERVAL=" + std::to_string(iv) + ";COUNT=" + std::to_string(cnt));
					std::string ev = sc::vevent("f" + std::to_string(i) + "@c03", base + (int64_t)std::get<6>(e) * 86400000LL, false, l);
					size_t w = (size_t)(ofs[0] + (int)i) % fb.size(); fb[w] += ev; if (ofs[1] % 3 == 0 && w + 1 < fb.size()) fb[w + 1] += ev; }
				cs.ics.clear(); for (size_t k = 0; k < fb.size(); k++) { if (k) cs.ics += FILESEP; cs.ics += sc::vcal(fb[k]); }
				cs.ops = "k"; cs.mode = 3; cs.cap = 400; return cs;
			}
			auto &o = std::get<6>(t); size_t len = 1 + (size_t)std::get<7>(t) * (size_t)maxops / 100;
			for (size_t j = 0; j < len && j < o.size(); j++) cs.ops += o[j] == 0 ? 'k' : 'p';
			cs.ops += "kpppkp";
			cs.mode = mode; cs.cap = 400;
			return cs; });
	rc::check("C03", [&]() {
		if (c.shrink_exhausted()) return;
		Case cs = *genCase;
		std::string txt = ctext(cs);
		Verdict v = judge(cs);
		if (v.k == Verdict::DISCARD) RC_DISCARD("no streams");
		c.st.record(txt, v);
		if (v.k == Verdict::FAIL && survey) { c.st.survey_add(v.msg.substr(0, 50), txt.substr(0, 1500) + " :: " + v.msg); return; }
		if (v.k == Verdict::FAIL) { c.note_fail(txt, v.msg); RC_FAIL(v.msg); }
	});
}
