// C18  Date-time and duration text forms round-trip.
//  inst : a generated instant is printed (dt_strf, dt_strf_ical or a hand-rendered
//         spelling the statement names) and must parse back to the same instant
//  dur  : a non-negative whole-second duration printed by idiff_strf, or spelled
//         with a generated legal combination of W/D/H/M/S designators (optional
//         leading '+'), must parse to the same number of milliseconds
#include "harness.hpp"
#include "civil.hpp"
#include "sut.h"
#include <rapidcheck.h>

using namespace vh;

static std::string rawtxt(const sut_inst_t &i) { char b[96]; snprintf(b, sizeof b, "%d,%d,%d,%d,%d,%d,%d", i.y, i.m, i.d, i.H, i.M, i.S, i.ms); return b; }
static bool parse_raw(const std::string &s, sut_inst_t &i) { return sscanf(s.c_str(), "%d,%d,%d,%d,%d,%d,%d", &i.y, &i.m, &i.d, &i.H, &i.M, &i.S, &i.ms) == 7; }
static bool same(const sut_inst_t &a, const sut_inst_t &b) { return a.y == b.y && a.m == b.m && a.d == b.d && a.H == b.H && a.M == b.M && a.S == b.S && a.ms == b.ms; }
static int kind(const sut_inst_t &i) { return i.H == SUT_ALL_DAY ? 2 : i.ms == SUT_ALL_SEC ? 1 : 0; }

// spelling: "strf", "ical", or "h<flags>" with bit0 dashes, bit1 space separator, bit2 colons, bit3 trailing Z
static std::string hand(const sut_inst_t &i, int fl) {
	char b[64]; std::string s;
	snprintf(b, sizeof b, (fl & 1) ? "%04d-%02d-%02d" : "%04d%02d%02d", i.y, i.m, i.d); s = b;
	if (kind(i) == 2) return s;
	s += (fl & 2) ? ' ' : 'T';
	snprintf(b, sizeof b, (fl & 4) ? "%02d:%02d:%02d" : "%02d%02d%02d", i.H, i.M, i.S); s += b;
	if (kind(i) == 0) { snprintf(b, sizeof b, ".%03d", i.ms); s += b; }
	if (fl & 8) s += 'Z';
	return s;
}

static std::string judge_inst(const sut_inst_t &i, const std::string &sp) {
	char buf[128]; std::string text; sut_inst_t want = i;
	memset(buf, 'X', sizeof buf);
	if (sp == "strf") { int n = sut_dt_strf(buf, 64, i); text.assign(buf, (size_t)std::max(0, n)); if (n < 0 || n >= 64 || buf[n] != '\0') return "dt_strf returned a bad length / unterminated buffer"; }
	else if (sp == "ical") { int n = sut_dt_strf_ical(buf, 64, i); text.assign(buf, (size_t)std::max(0, n)); if (n < 0 || n >= 64 || buf[n] != '\0') return "dt_strf_ical returned a bad length / unterminated buffer"; if (kind(i) == 0) want.ms = SUT_ALL_SEC; }
	else text = hand(i, atoi(sp.c_str() + 1));
	// exact-size heap copy (NUL-terminated, as every caller passes it)
	char *hp = strdup(text.c_str());
	sut_inst_t got; int used = sut_dt_strp(hp, &got);
	free(hp);
	if (used < 0 || !same(got, want)) return "'" + text + "' parses to [" + rawtxt(got) + "], printed from [" + rawtxt(want) + "]";
	if ((size_t)used != text.size()) return "'" + text + "' : end pointer after " + std::to_string(used) + " of " + std::to_string(text.size()) + " bytes";
	return "";
}

static std::string judge_dur(int64_t ms, const std::string &text_in) {
	std::string text = text_in;
	if (text == "strf") {
		char buf[128]; memset(buf, 'X', sizeof buf);
		int n = sut_idiff_strf(buf, 64, ms);
		if (n <= 0 || n >= 64 || buf[n] != '\0') return "idiff_strf(" + std::to_string(ms) + ") returned bad length " + std::to_string(n);
		text.assign(buf, (size_t)n);
	}
	char *hp = strdup(text.c_str());
	int64_t got = -1; int used = sut_idiff_strp(hp, &got);
	free(hp);
	(void)used;
	if (got != ms) return "'" + text + "' parses to " + std::to_string(got) + " ms, means " + std::to_string(ms) + " ms";
	return "";
}

struct Case { std::string op; sut_inst_t i{}; std::string sp; int64_t ms = 0; };
static std::string ctext(const Case &c) {
	if (c.op == "inst") return "op=inst raw=" + rawtxt(c.i) + " sp=" + c.sp + (c.sp[0] == 'h' ? "  # " + hand(c.i, atoi(c.sp.c_str() + 1)) : "");
	return "op=dur ms=" + std::to_string(c.ms) + " text=" + c.sp;
}
static bool cparse(const std::string &t, Case &c) {
	auto field = [&](const char *k) -> std::string { size_t p = t.find(std::string(k) + "="); if (p == std::string::npos) return ""; p += strlen(k) + 1; size_t e = t.find(' ', p); return t.substr(p, e == std::string::npos ? e : e - p); };
	c.op = field("op");
	if (c.op == "inst") { c.sp = field("sp"); return parse_raw(field("raw"), c.i) && !c.sp.empty(); }
	if (c.op == "dur") { c.ms = atoll(field("ms").c_str()); c.sp = field("text"); return !c.sp.empty(); }
	return false;
}
static int ndesig(const std::string &s) { int n = 0; for (char ch : s) if (ch == 'W' || ch == 'D' || ch == 'H' || ch == 'M' || ch == 'S') n++; return n; }
static Verdict classify(const Case &c, const std::string &msg) {
	Verdict v = msg.empty() ? Verdict::pass() : Verdict::fail(msg);
	if (c.op == "inst") {
		static const char *kn[] = {"ms", "allsec", "allday"};
		v.classes.push_back(std::string("inst/") + kn[kind(c.i)] + "/" + (c.sp[0] == 'h' ? "hand" : c.sp));
		bool boundary = c.i.d == 1 || c.i.d >= 28 || c.i.m == 1 || c.i.m == 12 || (kind(c.i) != 2 && (c.i.H == 0 || c.i.H == 23 || c.i.M == 0 || c.i.M == 59 || c.i.S == 0 || c.i.S == 59));
		v.nontrivial = boundary;
	} else {
		int nd = c.sp == "strf" ? 0 : ndesig(c.sp);
		bool big = c.ms >= 4302720000LL;   // 49.8 d
		v.nontrivial = big || nd >= 3 || c.sp[0] == '+';
		v.classes.push_back(c.sp == "strf" ? "dur/strf" : "dur/spelled");
		if (big) v.classes.push_back("dur/>=49.8d");
		if (c.sp[0] == '+') v.classes.push_back("dur/leading+");
		if (nd >= 3) v.classes.push_back("dur/>=3designators");
		if (c.sp.find('W') != std::string::npos) v.classes.push_back("dur/weeks");
	}
	return v;
}
static std::string judge(const Case &c) { return c.op == "inst" ? judge_inst(c.i, c.sp) : judge_dur(c.ms, c.sp); }
static Verdict judge_sandboxed(const Case &c) {
	SbxResult r = sandbox([&](Out &o) { o.put(judge(c)); }, 10.0);
	return classify(c, r.ok() ? r.out : r.describe());
}
Verdict prop_replay(Ctx &, const std::string &ct) {
	Case c; if (!cparse(ct, c)) return Verdict::inconclusive("unparseable case");
	return judge_sandboxed(c);
}

void prop_gen(Ctx &c) {
	bool all_done = true;
	// ---- exhaustive: every day 1901..2099 date-only in all 4 date spellings; plus 4 seconds of each day in all timed spellings
	for (int y = 1901; y <= 2099 && !c.fail.have; y++) {
		if ((y - 1901) % c.nworkers != c.worker) continue;
		SbxResult r = sandbox([&](Out &o) {
			uint64_t ev = 0, nt = 0; std::string fc, fm, smp;
			int64_t d0 = civil::days_from_civil(y, 1, 1), d1 = civil::days_from_civil(y, 12, 31);
			for (int64_t d = d0; d <= d1 && fc.empty(); d++) {
				civil::YMD q = civil::civil_from_days(d);
				auto one = [&](const Case &cs) { ev++; Verdict v = classify(cs, ""); if (v.nontrivial) nt++; std::string m = judge(cs); if (!m.empty() && fc.empty()) { fc = ctext(cs); fm = m; } if (smp.empty() && ev % 977 == 5) smp = ctext(cs); };
				Case cs; cs.op = "inst"; cs.i = {q.y, (int)q.m, (int)q.d, SUT_ALL_DAY, 0, 0, 0};
				for (const char *sp : {"strf", "ical", "h0", "h1"}) { cs.sp = sp; one(cs); }
				int sod[4] = {0, 86399, (int)((d * 7919 % 86400 + 86400) % 86400), (int)((d * 104729 % 86400 + 86400) % 86400)};
				for (int s : sod) {
					cs.i.H = s / 3600; cs.i.M = s / 60 % 60; cs.i.S = s % 60; cs.i.ms = SUT_ALL_SEC;
					cs.sp = "strf"; one(cs); cs.sp = "ical"; one(cs);
					for (int fl = 0; fl < 16; fl++) { cs.sp = "h" + std::to_string(fl); one(cs); }
					cs.i.ms = (int)((d * 31 + s) % 1000 + 1000) % 1000; cs.sp = "strf"; one(cs);
					for (int fl = 0; fl < 16; fl++) { cs.sp = "h" + std::to_string(fl); one(cs); }
				}
			}
			o.printf("%llu %llu\n", (unsigned long long)ev, (unsigned long long)nt);
			o.put(fc + "\n" + fm + "\n" + smp + "\n");
		}, 120.0);
		if (!r.ok()) { all_done = false; c.st.failures++; c.note_fail("op=inst raw=" + std::to_string(y) + ",1,1,255,0,0,0 sp=strf", "year chunk: " + r.describe()); break; }
		std::stringstream ss(r.out); std::string line, fc, fm;
		std::getline(ss, line); { unsigned long long e = 0, n = 0; sscanf(line.c_str(), "%llu %llu", &e, &n); c.st.evaluations += e; c.nt_bulk += n; c.st.classes["exhaustive-day-level"] += e; }
		std::getline(ss, fc); std::getline(ss, fm);
		if (std::getline(ss, line) && !line.empty() && c.st.samples.size() < 4) c.st.samples.push_back(line);
		if (!fc.empty()) { all_done = false; c.st.failures++; c.note_fail(fc, fm); }
	}
	c.st.exhaustive = all_done;
	if (c.fail.have) return;

	// ---- sampled
	std::string params = "seed=" + std::to_string(c.seed) + " max_success=" + std::to_string(c.cases) + " max_size=" + std::to_string(c.size);
	setenv("RC_PARAMS", params.c_str(), 1);
	using rc::gen::inRange; using rc::gen::resize;
	auto R = [](int lo, int hi) { return resize(1000, inRange(lo, hi)); };
	// durations in whole seconds: log-uniform up to ~3 years + boundaries
	auto genSecs = resize(1000, rc::gen::weightedOneOf<int64_t>({
		{4, rc::gen::map(rc::gen::pair(inRange(0, 27), inRange<int64_t>(0, 1 << 20)), [](std::pair<int, int64_t> p) { int64_t top = 1LL << p.first; return std::min<int64_t>(top + p.second % std::max<int64_t>(top, 1), 3LL * 366 * 86400); })},
		{1, rc::gen::element<int64_t>(0, 1, 59, 60, 61, 3599, 3600, 3601, 86399, 86400, 86401, 604800, 2147483, 2147484, 4233600, 4294967, 4294968, 4320000, 4320001, 31536000, 31622400, 94608000)},
		{1, rc::gen::map(inRange<int64_t>(1, 160), [](int64_t w) { return w * 604800; })},
		{1, rc::gen::map(inRange<int64_t>(40, 1100), [](int64_t d) { return d * 86400; })},
		{1, rc::gen::map(rc::gen::pair(inRange<int64_t>(1, 50), inRange<int64_t>(-3, 4)), [](std::pair<int64_t, int64_t> p) { return std::max<int64_t>(0, p.first * 2147483 + p.second); })}}));
	auto genDurCase = rc::gen::map(rc::gen::tuple(genSecs, R(0, 8), rc::gen::container<std::vector<int>>(8, resize(1000, inRange(0, 1000)))), [](std::tuple<int64_t, int, std::vector<int>> t) {
		Case cs; cs.op = "dur"; int64_t v = std::get<0>(t); cs.ms = v * 1000; int mode = std::get<1>(t); auto &r = std::get<2>(t);
		if (mode == 0) { cs.sp = "strf"; return cs; }
		std::string s = (r[0] % 3 == 0) ? "+P" : "P";
		if (mode == 1 && v % 604800 == 0) { cs.sp = s + std::to_string(v / 604800) + "W"; return cs; }
		// split v into D/H/M/S with generated carries: each coarser unit takes a random share
		auto share = [](int64_t total, int64_t unit, int rnd) -> int64_t { int64_t mx = total / unit; if (mx == 0) return 0; int sel = rnd % 4; return sel == 0 ? mx : sel == 1 ? 0 : sel == 2 ? mx - (mx > 1) : rnd % (mx + 1); };
		int64_t d = share(v, 86400, r[1]); v -= d * 86400;
		int64_t h = share(v, 3600, r[2]); v -= h * 3600;
		int64_t m = share(v, 60, r[3]); v -= m * 60;
		int64_t sec = v;
		bool zD = r[4] % 3 == 0, zH = r[5] % 3 == 0, zM = r[6] % 3 == 0, zS = r[7] % 3 == 0;
		std::string date, time;
		if (d || zD) date = std::to_string(d) + "D";
		if (h || zH) time += std::to_string(h) + "H";
		if (m || zM) time += std::to_string(m) + "M";
		if (sec || zS) time += std::to_string(sec) + "S";
		if (date.empty() && time.empty()) date = "0D";
		cs.sp = s + date + (time.empty() ? "" : "T" + time);
		return cs; });
	auto genInstCase = rc::gen::map(rc::gen::tuple(R(1901, 2100), R(1, 13), R(1, 32), R(0, 24), R(0, 60), R(0, 60), R(0, 1000), R(0, 10), R(0, 18), R(0, 4)), [](std::tuple<int, int, int, int, int, int, int, int, int, int> t) {
		Case cs; cs.op = "inst";
		int y = std::get<0>(t), m = std::get<1>(t), d = std::min<int>(std::get<2>(t), (int)civil::days_in_month(y, m));
		int k = std::get<7>(t) < 4 ? 0 : std::get<7>(t) < 8 ? 1 : 2;
		int edge = std::get<9>(t);   // bias to field boundaries
		int H = std::get<3>(t), M = std::get<4>(t), S = std::get<5>(t), ms = std::get<6>(t);
		if (edge == 1) { H = H % 2 ? 23 : 0; M = M % 2 ? 59 : 0; S = S % 2 ? 59 : 0; ms = ms % 2 ? 999 : 0; }
		if (edge == 2) { d = d % 2 ? (int)civil::days_in_month(y, m) : 1; }
		cs.i = {y, m, d, H, M, S, ms};
		if (k == 1) cs.i.ms = SUT_ALL_SEC;
		if (k == 2) cs.i = {y, m, d, SUT_ALL_DAY, 0, 0, 0};
		int sp = std::get<8>(t);
		if (sp == 16) cs.sp = "strf"; else if (sp == 17) cs.sp = "ical"; else cs.sp = "h" + std::to_string(sp);
		return cs; });
	auto genCase = rc::gen::mapcat(R(0, 3), [=](int sel) -> rc::Gen<Case> { return sel == 0 ? genInstCase : genDurCase; });
	rc::check("C18 sampled", [&]() {
		if (c.shrink_exhausted()) return;
		Case cs = *genCase;
		std::string txt = ctext(cs);
		Verdict v = judge_sandboxed(cs);
		c.st.record(txt, v);
		if (v.k == Verdict::FAIL) { c.note_fail(txt, v.msg); RC_FAIL(v.msg); }
	});
}
