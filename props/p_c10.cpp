// C10  iCalendar parsing is independent of how the bytes arrive.
// judge(bytes, partition): feed the bytes to a fresh parser in the given chunks (each an exact-size heap
// block, pulled dry after every push exactly as echse/echsd/echsx do) and dump every instruction with all
// task fields and the first occurrences.  Every partition must give the dump of the single-chunk feed.
#include "harness.hpp"
#include "strmcase.hpp"
#include "icalgen.hpp"

using namespace vh;

static std::string b64(const std::string &s) { static const char *T = "0123456789abcdef"; std::string o; for (unsigned char c : s) { o += T[c >> 4]; o += T[c & 15]; } return o; }
static std::string unb64(const std::string &s) { std::string o; for (size_t i = 0; i + 1 < s.size(); i += 2) o += (char)strtol(s.substr(i, 2).c_str(), nullptr, 16); return o; }

struct Case { std::string bytes; std::vector<size_t> chunks; std::string pname; };
static std::string ctext(const Case &c) { std::string s = "partition=" + c.pname + " chunks="; for (size_t i = 0; i < c.chunks.size() && i < 4000; i++) { if (i) s += ","; s += std::to_string(c.chunks[i]); } return s + " hex=" + b64(c.bytes) + "\n" + c.bytes; }
static bool cparse(const std::string &t, Case &c) {
	size_t a = t.find("chunks="), b = t.find(" hex="); if (a == std::string::npos || b == std::string::npos) return false;
	std::stringstream ss(t.substr(a + 7, b - a - 7)); std::string tok; while (std::getline(ss, tok, ',')) if (!tok.empty()) c.chunks.push_back((size_t)atol(tok.c_str()));
	size_t e = t.find('\n', b); c.bytes = unb64(t.substr(b + 5, e == std::string::npos ? e : e - b - 5)); c.pname = "replay";
	return !c.chunks.empty();
}

static SbxResult feed(const std::string &bytes, const std::vector<size_t> &chunks) {
	return sandbox([&](Out &o) { sut_buf_t b = {nullptr, 0, 0}; sut_parse_dump(bytes.data(), bytes.size(), chunks.empty() ? nullptr : chunks.data(), chunks.size(), 12, SUT_F_DUR, &b); if (b.p) o.put(std::string(b.p, b.n)); }, 10.0);
}

static std::string first_diff(const std::string &a, const std::string &b) {
	size_t i = 0; while (i < a.size() && i < b.size() && a[i] == b[i]) i++;
	size_t s = a.rfind('\n', i); s = s == std::string::npos ? 0 : s + 1;
	auto line = [&](const std::string &x) { size_t e = x.find('\n', s); return x.substr(s, (e == std::string::npos ? x.size() : e) - s).substr(0, 200); };
	return "all-at-once: [" + line(a) + "]  chunked: [" + line(b) + "]";
}

static Verdict judge(const Case &c, const std::string *ref_dump = nullptr) {
	std::string ref;
	if (ref_dump) ref = *ref_dump; else { SbxResult r = feed(c.bytes, {}); if (r.st == SbxResult::TIMEOUT) return Verdict::fail("all-at-once feed: no answer within the CPU budget"); if (!r.ok()) return Verdict::fail("all-at-once feed: " + r.describe()); ref = r.out; }
	SbxResult r = feed(c.bytes, c.chunks);
	if (r.st == SbxResult::TIMEOUT) return Verdict::fail("no answer within the CPU budget");
	if (!r.ok()) return Verdict::fail(r.describe());
	if (r.out != ref) return Verdict::fail("instructions differ between feeds (" + c.pname + "): " + first_diff(ref, r.out));
	return Verdict::pass();
}

Verdict prop_replay(Ctx &, const std::string &t) { Case c; if (!cparse(t, c)) return Verdict::inconclusive("bad case"); return judge(c); }

// partitions of a byte string
static std::vector<std::pair<std::string, std::vector<size_t>>> partitions(const std::string &s, const std::vector<int> &rnd) {
	std::vector<std::pair<std::string, std::vector<size_t>>> P;
	size_t n = s.size();
	auto cuts_to_chunks = [&](std::vector<size_t> cuts) { std::sort(cuts.begin(), cuts.end()); cuts.erase(std::unique(cuts.begin(), cuts.end()), cuts.end()); std::vector<size_t> ch; size_t prev = 0; for (size_t c : cuts) { if (c == 0 || c >= n) continue; ch.push_back(c - prev); prev = c; } ch.push_back(n - prev); return ch; };
	P.push_back({"1-byte", std::vector<size_t>(n, 1)});
	P.push_back({"2-byte", std::vector<size_t>((n + 1) / 2, 2)});
	{ std::vector<size_t> c; for (size_t i = 0; i < n; i++) if (s[i] == '\n') c.push_back(i + 1); P.push_back({"after-every-LF", cuts_to_chunks(c)}); }
	{ std::vector<size_t> c; for (size_t i = 0; i + 1 < n; i++) if (s[i] == '\r' && s[i + 1] == '\n') c.push_back(i + 1); if (!c.empty()) P.push_back({"between-CR-and-LF", cuts_to_chunks(c)}); }
	{ std::vector<size_t> c; for (size_t i = 0; i + 1 < n; i++) if (s[i] == '\n' && (s[i + 1] == ' ' || s[i + 1] == '\t')) c.push_back(i + 1); if (!c.empty()) P.push_back({"inside-fold-after-LF", cuts_to_chunks(c)}); }
	{ std::vector<size_t> c; for (size_t i = 0; i + 2 < n; i++) if (s[i] == '\n' && (s[i + 1] == ' ' || s[i + 1] == '\t')) c.push_back(i + 2); if (!c.empty()) P.push_back({"inside-fold-after-space", cuts_to_chunks(c)}); }
	{ std::vector<size_t> c; for (size_t i = 0; i + 1 < n; i++) if (s[i] == '\\') c.push_back(i + 1); if (!c.empty()) P.push_back({"after-backslash", cuts_to_chunks(c)}); }
	{ std::vector<size_t> c; for (size_t i = 4096; i < n; i += 4096) c.push_back(i); if (!c.empty()) P.push_back({"4096-blocks", cuts_to_chunks(c)}); }
	{ std::vector<size_t> c; for (size_t i = 0; i < n; i++) if (s[i] == ':' || s[i] == ';') c.push_back(i + (rnd[i % rnd.size()] % 2)); P.push_back({"around-colons", cuts_to_chunks(c)}); }
	for (int k = 0; k < 3; k++) { std::vector<size_t> c; size_t pos = 0; size_t j = (size_t)k * 7; while (pos < n) { pos += 1 + (size_t)rnd[j++ % rnd.size()] % (k == 0 ? 7 : k == 1 ? 90 : 1500); c.push_back(pos); } P.push_back({"random-" + std::to_string(k), cuts_to_chunks(c)}); }
	return P;
}

void prop_gen(Ctx &c) {
	bool survey = c.getoptl("survey", 0) != 0;
	std::string params = "seed=" + std::to_string(c.seed) + " max_success=" + std::to_string(c.cases) + " max_size=" + std::to_string(c.size) + " max_discard_ratio=20";
	setenv("RC_PARAMS", params.c_str(), 1);
	using rgen::R;
	auto genSched = rc::gen::map(rc::gen::tuple(rgen::rule_case(true), R(0, 100), R(0, 100)), [](std::tuple<rgen::RuleCase, int, int> t) { rgen::RuleCase g = std::get<0>(t); if (g.rule.count < 0 && std::get<1>(t) < 50) g.rule.count = 5 + std::get<2>(t) % 30; return g; });
	auto genCal = rc::gen::tuple(rc::gen::container<std::vector<ig::Task>>(3, ig::gen_task()), rc::gen::container<std::vector<rgen::RuleCase>>(3, genSched), R(1, 4), R(0, 100),
		rc::gen::container<std::vector<int>>(7, rc::gen::weightedOneOf<int>({{5, rc::gen::just(0)}, {3, R(1, 80)}, {1, R(1, 6)}})), rc::gen::tuple(R(0, 100), R(0, 100), R(0, 100), R(0, 100), R(0, 100)),
		rc::gen::container<std::vector<int>>(64, R(0, 100000)), rc::gen::tuple(ig::gen_nn(25), R(-30, 63), R(-0777, 01000)));
	rc::check("C10", [&]() {
		if (c.shrink_exhausted()) return;
		auto t = *genCal;
		std::vector<ig::Task> tasks(std::get<0>(t).begin(), std::get<0>(t).begin() + std::get<2>(t));
		auto &sch = std::get<1>(t);
		for (size_t i = 0; i < tasks.size(); i++) {
			tasks[i].uid = "t" + std::to_string(i) + "-" + tasks[i].uid;
			tasks[i].date_only = sch[i].date_only; tasks[i].start = sch[i].seed_ms; if (tasks[i].date_only) tasks[i].start -= civil::floormod(tasks[i].start, civil::MS_DAY);
			rref::Rule r = sch[i].rule; if (tasks[i].date_only) { r.byhour.clear(); r.byminute.clear(); r.bysecond.clear(); }
			tasks[i].sched_lines.push_back("RRULE:" + r.text());
		}
		auto &x = std::get<5>(t);
		ig::Layout lay; lay.crlf = std::get<3>(t) < 50; lay.fold_cols = std::get<4>(t);
		ig::CalDefaults d; d.owner = std::get<0>(std::get<7>(t)); d.max_simul = std::max(-1, std::get<1>(std::get<7>(t))); d.umask = std::max(-1, std::get<2>(std::get<7>(t)));
		// escapes and odd lines inside the events
		std::vector<std::string> extra;
		if (std::get<0>(x) < 40) extra.push_back("X-COMMENT:esc \\\\ backslash \\, comma \; semi \\n newline \\N NEWLINE \\\" quote");
		if (std::get<1>(x) < 15) { extra.push_back("BEGIN:VALARM"); extra.push_back("ACTION:DISPLAY"); extra.push_back("TRIGGER:-PT15M"); extra.push_back("END:VALARM"); }
		if (std::get<2>(x) < 10) extra.push_back("X-LONG:" + std::string(2100, 'x'));
		if (std::get<0>(x) >= 40 && std::get<0>(x) < 60) { tasks[0].summary += " \\, escaped\; text\\\\ here"; }
		std::string method = std::get<3>(x) < 60 ? "" : std::get<3>(x) < 75 ? "PUBLISH" : std::get<3>(x) < 85 ? "REQUEST" : std::get<3>(x) < 93 ? "CANCEL" : "REPLY";
		if (method == "CANCEL") extra.push_back("RECURRENCE-ID:20200101T000000Z");
		if (method == "REPLY") extra.push_back("REQUEST-STATUS:2.0;Success");
		std::string bytes = ig::render_calendar(tasks, d, lay, method, extra);
		int tail = std::get<4>(x);
		if (tail < 10) bytes.resize(bytes.size() - (size_t)(tail + 1) * bytes.size() / 40);   // truncated tail
		else if (tail < 14) bytes += bytes;                                                  // two calendars back to back
		// reference dump
		SbxResult r0 = feed(bytes, {});
		if (!r0.ok()) { Case cs; cs.bytes = bytes; cs.chunks = {bytes.size()}; cs.pname = "all-at-once"; std::string m = "all-at-once feed: " + r0.describe(); c.st.evaluations++; if (survey) { c.st.survey_add(m.substr(0, 80), ctext(cs).substr(0, 3000) + " :: " + m); return; } c.note_fail(ctext(cs), m); RC_FAIL(m); }
		bool has_ins = r0.out.find("SCHE ") != std::string::npos || r0.out.find("UNSC ") != std::string::npos || r0.out.find("SUCC ") != std::string::npos;
		for (auto &p : partitions(bytes, std::get<6>(t))) {
			Case cs; cs.bytes = bytes; cs.chunks = p.second; cs.pname = p.first;
			Verdict v = judge(cs, &r0.out);
			v.nontrivial = has_ins && p.first != "after-every-LF" && p.first != "4096-blocks";
			v.classes.push_back("partition/" + p.first); if (lay.crlf) v.classes.push_back("CRLF"); else v.classes.push_back("LF");
			if (!method.empty()) v.classes.push_back("METHOD:" + method);
			std::string txt = "partition=" + p.first + " len=" + std::to_string(bytes.size()) + " nchunks=" + std::to_string(p.second.size()) + " hash=" + std::to_string(fnv1a(bytes));
			c.st.record(txt, v);
			if (v.k == Verdict::FAIL && survey) { c.st.survey_add(p.first + " :: " + v.msg.substr(0, 60), ctext(cs).substr(0, 200) + " :: " + v.msg.substr(0, 600)); continue; }
			if (v.k == Verdict::FAIL) { c.note_fail(ctext(cs), v.msg); RC_FAIL(v.msg); }
		}
	});
}
