// C14  A job outliving its DTEND/DURATION/DUE limit is killed by the deadline.
// End to end over generated limits: user event text -> (echsq's serialisation) -> echsd harness -> the VTODO
// echsd hands to the executor -> the real echsx built from the tree, whose alarm() the LD_PRELOAD shim logs
// (and scales down, so that a limit of two weeks is observed in half a second).
#include "daemon.hpp"
#include "xrun.hpp"
#include "rulegen.hpp"

using namespace vh;

static std::string g_echsx, g_shim;
static bool g_trace = false;
static const double T0 = 1577872800.0;

struct Case { std::string form = "dura"; long limit = 1; std::string iso; int longjob = 1; int nocc = 3; };   // nocc: occurrences of the event (1 = no RRULE); every one that comes due is looked at
static std::string ctext(const Case &c) { return "form=" + c.form + " limit=" + std::to_string(c.limit) + " iso=" + (c.iso.empty() ? "-" : c.iso) + " longjob=" + std::to_string(c.longjob) + " nocc=" + std::to_string(c.nocc); }
static bool cparse(const std::string &t, Case &c) { char f[16], iso[64]; int n = sscanf(t.c_str(), "form=%15s limit=%ld iso=%63s longjob=%d nocc=%d", f, &c.limit, iso, &c.longjob, &c.nocc); if (n < 4) return false; if (n < 5) c.nocc = 3; c.form = f; c.iso = std::string(iso) == "-" ? "" : iso; return true; }

// strict RFC 5545 dur-value -> seconds, -1 if it is none
static long iso_seconds(const std::string &s) {
	size_t i = 0; if (i < s.size() && s[i] == '+') i++; if (i >= s.size() || s[i] != 'P') return -1; i++;
	long tot = 0; bool intime = false, any = false;
	while (i < s.size()) {
		if (s[i] == 'T') { if (intime) return -1; intime = true; i++; continue; }
		if (!isdigit((unsigned char)s[i])) return -1;
		long v = 0; while (i < s.size() && isdigit((unsigned char)s[i])) v = v * 10 + (s[i++] - '0');
		if (i >= s.size()) return -1; char u = s[i++];
		if (!intime && u == 'W') tot += v * 604800; else if (!intime && u == 'D') tot += v * 86400; else if (intime && u == 'H') tot += v * 3600; else if (intime && u == 'M') tot += v * 60; else if (intime && u == 'S') tot += v; else return -1;
		any = true;
	}
	return any ? tot : -1;
}

static Verdict run_executor(const Case &c, const std::string &vtodo_in, long expect_lo, long expect_hi, const std::string &tag) {
	std::string wd = xr::mkworkdir(); if (wd.empty()) return Verdict::inconclusive("no work dir");
	auto done = [&](Verdict v) { if (!g_trace) xr::rm_rf(wd); return v; };
	// the request as handed over, with the pieces that name this sandbox: uid/gid we may switch to, a directory that exists, the job
	std::string v = vtodo_in; auto setf = [&](const std::string &name, const std::string &val) { size_t p = v.find("\n" + name + ":"); if (p == std::string::npos) { size_t e = v.find("\nEND:VTODO"); v.insert(e, "\n" + name + ":" + val); return; } size_t e = v.find('\n', p + 1); v.replace(p + 1, e - p - 1, name + ":" + val); };
	setf("X-ECHS-SETUID", std::to_string(getuid())); setf("X-ECHS-SETGID", std::to_string(getgid())); setf("X-ECHS-SHELL", "/bin/sh"); setf("LOCATION", wd);
	setf("SUMMARY", std::string("echo run >> runs.txt; exec sleep ") + (c.longjob ? "4" : "0.05"));
	long scale = c.limit > 0 ? std::max(1L, 500000L / c.limit) : 1;   // the limit shrinks to about half a second
	xr::XRun r = xr::run_echsx(g_echsx, g_shim, wd, v, {}, 20.0, scale);
	if (g_trace) fprintf(stderr, "--- request\n%s--- status %d wall %.3f hung %d alarms %zu\n--- journal\n%s--- log\n%s\n", v.c_str(), r.status, r.wall, r.hung, r.alarms.size(), r.journal.c_str(), r.log.c_str());
	if (!r.started) return done(Verdict::inconclusive("cannot start echsx"));
	if (r.hung) { unlink((wd + "/runs.txt").c_str()); r = xr::run_echsx(g_echsx, g_shim, wd, v, {}, 200.0, scale); if (r.hung) return done(Verdict::fail(tag + "echsx did not finish within 200 s (20 s at first)")); }   // a busy machine is no verdict
	std::string runs = slurp(wd + "/runs.txt"), sg = xr::jfield(r.journal, "X-SIGNAL"), xs = xr::jfield(r.journal, "X-EXIT-STATUS");
	if (expect_hi <= 0) {   // overdue: refused
		if (!runs.empty()) return done(Verdict::fail(tag + "the request was already overdue and the job was run all the same"));
		Verdict ok; ok.classes.push_back("overdue-refused"); ok.nontrivial = true; return done(ok);
	}
	if (runs != "run\n") return done(Verdict::fail(tag + "the job was not run (ran " + std::to_string(runs.size() / 4) + " times): " + r.log.substr(0, 200)));
	long armed = -1; for (long a : r.alarms) if (a > 0) armed = a;
	if (armed < 0) return done(Verdict::fail(tag + "the executor armed no deadline at all (limit " + std::to_string(c.limit) + " s): the job runs unbounded"));
	if (armed < expect_lo || armed > expect_hi) return done(Verdict::fail(tag + "the executor armed a deadline of " + std::to_string(armed) + " s for a limit of " + std::to_string(c.limit) + " s"));
	if (c.longjob) {
		if (sg.empty()) return done(Verdict::fail(tag + "the job outlived its limit and was not killed (journal: X-EXIT-STATUS:" + xs + ")"));
	} else if (!sg.empty() || xs != "0") return done(Verdict::fail(tag + "a job finishing before its limit was disturbed: X-EXIT-STATUS:" + xs + " X-SIGNAL:" + sg));
	Verdict ok; ok.nontrivial = true; ok.classes.push_back(c.longjob ? "killed-by-deadline" : "finished-early");
	return done(ok);
}

static Verdict judge(const Case &c) {
	std::string tag = "[" + c.form + (c.iso.empty() ? "" : " " + c.iso) + " = " + std::to_string(c.limit) + " s] ";
	if (c.form == "due") {
		// an execution request with a DUE time, as echsx documents it
		if (c.limit == 0) { struct timespec ts; clock_gettime(CLOCK_REALTIME, &ts); if (ts.tv_nsec > 300000000L) usleep((useconds_t)((1000000000L - ts.tv_nsec) / 1000 + 20000)); }   // due this very second: start early in a second so that the request arrives within it
		time_t due = time(nullptr) + c.limit; std::string ds = civil::fmt_ical((int64_t)due * 1000, false);
		std::string req = "BEGIN:VCALENDAR\nVERSION:2.0\nBEGIN:VTODO\nUID:c14due\nSUMMARY:true\nX-ECHS-SETUID:0\nX-ECHS-SETGID:0\nX-ECHS-SHELL:/bin/sh\nLOCATION:/\nDUE:" + ds + "\nX-ECHS-UMASK:022\nX-ECHS-MAIL-RUN:0\nX-ECHS-MAIL-OUT:0\nX-ECHS-MAIL-ERR:0\nORGANIZER:echse\nEND:VTODO\nEND:VCALENDAR\n";
		Verdict v = run_executor(c, req, c.limit - 2, c.limit, tag); v.classes.push_back("form/due"); return v;
	}
	// ---- hop 1: the user's file through the serialiser echsq uses
	std::string ev = "BEGIN:VCALENDAR\nVERSION:2.0\nBEGIN:VEVENT\nUID:c14job\nSUMMARY:true\nDTSTART:20200101T100010Z\n";
	if (c.form == "dtend") ev += "DTEND:" + civil::fmt_ical(((int64_t)T0 + 10 + c.limit) * 1000, false) + "\n"; else ev += "DURATION:" + c.iso + "\n";
	if (c.nocc > 1) ev += "RRULE:FREQ=SECONDLY;INTERVAL=7;COUNT=" + std::to_string(c.nocc) + "\n";
	ev += "END:VEVENT\nEND:VCALENDAR\n";
	std::string text2;
	{ SbxResult r = sandbox([&](Out &o) { sut_buf_t b = {nullptr, 0, 0}; sut_roundtrip(ev.data(), ev.size(), 0, 0, &b); if (b.p) o.put(std::string(b.p, b.n)); }, 20.0);
	  if (!r.ok()) return Verdict::fail(tag + "serialising the event: " + r.describe());
	  size_t p = r.out.find("TEXT "); if (p == std::string::npos) return Verdict::inconclusive("event not accepted by the parser"); size_t nl = r.out.find('\n', p); size_t n = (size_t)atol(r.out.c_str() + p + 5); text2 = r.out.substr(nl + 1, n); }
	if (text2.find("BEGIN:VCALENDAR") == std::string::npos) text2 = "BEGIN:VCALENDAR\nVERSION:2.0\n" + text2 + "END:VCALENDAR\n";
	// ---- hop 2: echsd arms the task and hands the execution request to the executor
	std::string spool = dm::make_spool(); if (spool.empty()) return Verdict::inconclusive("no spool");
	char adv[64]; snprintf(adv, sizeof adv, "ADV %.3f 0.001\n", T0 + 11 + 7.0 * c.nocc);   // past the last occurrence
	dm::Trace tr = dm::run_session(spool, "USERS 1000\nVTODOS\n" + dm::submit_op(1000, text2) + adv, 20.0);
	dm::rm_rf(spool);
	if (g_trace) fprintf(stderr, "--- echsq hop\n%s--- daemon trace\n%s\n", text2.c_str(), tr.raw.c_str());
	if (!tr.sbx.ok()) return Verdict::fail(tag + "daemon: " + tr.sbx.describe());
	// every run started for one of its occurrences carries the limit, the last one (after which the stream is exhausted) included
	const dm::Spawn *sp = nullptr; int nsp = 0;
	for (auto &e : tr.ev) if (e.k == dm::Ev::SPAWN) { sp = &e.sp; nsp++; std::string occ = "occurrence " + std::to_string(nsp) + " of " + std::to_string(c.nocc) + ": ";
		long handed = iso_seconds(sp->dur);
		if (sp->dur.empty()) return Verdict::fail(tag + occ + "echsd hands no DURATION to the executor: the run is unbounded");
		if (handed < 0) return Verdict::fail(tag + occ + "echsd hands `DURATION:" + sp->dur + "' to the executor, which is not an RFC 5545 duration");
		if (handed < c.limit || handed > c.limit + 1) return Verdict::fail(tag + occ + "echsd hands DURATION:" + sp->dur + " (" + std::to_string(handed) + " s) to the executor"); }
	if (nsp != c.nocc) return Verdict::inconclusive("the daemon started " + std::to_string(nsp) + " of " + std::to_string(c.nocc) + " occurrences");
	// ---- hop 3: the real executor on exactly that request
	Verdict v = run_executor(c, sp->vtodo, c.limit, c.limit + 1, tag);
	v.classes.push_back("form/" + c.form); v.classes.push_back(c.limit < 60 ? "limit/<1min" : c.limit < 3600 ? "limit/<1h" : c.limit < 86400 ? "limit/<1d" : "limit/days+");
	return v;
}

Verdict prop_replay(Ctx &c, const std::string &t) { g_trace = c.getoptl("trace", 0) != 0; g_echsx = c.opt["echsx"]; g_shim = c.opt["shim"]; Case cs; if (!cparse(t, cs)) return Verdict::inconclusive("bad case text"); return judge(cs); }

void prop_gen(Ctx &c) {
	g_echsx = c.opt["echsx"]; g_shim = c.opt["shim"];
	bool survey = c.getoptl("survey", 0) != 0;
	std::string params = "seed=" + std::to_string(c.seed) + " max_success=" + std::to_string(c.cases) + " max_size=" + std::to_string(c.size) + " max_discard_ratio=20";
	setenv("RC_PARAMS", params.c_str(), 1);
	using rgen::R;
	rc::check("C14", [&]() {
		if (c.shrink_exhausted()) return;
		Case cs; int f = *R(0, 9); cs.form = f < 3 ? "dtend" : f < 8 ? "dura" : "due"; cs.longjob = *R(0, 3) != 0; cs.nocc = *R(1, 4);
		if (cs.form == "dura") {
			int shape = *R(0, 8); long w = 0, d = 0, h = 0, m = 0, s = 0;
			switch (shape) { case 0: s = *R(1, 59); break; case 1: m = *R(1, 90); break; case 2: h = *R(1, 30); break; case 3: d = *R(1, 9); break; case 4: w = *R(1, 3); break;
			case 5: h = *R(0, 23); m = *R(0, 59); s = *R(1, 59); break; case 6: d = *R(1, 6); h = *R(0, 23); m = *R(0, 59); s = *R(0, 59); break; default: s = *R(60, 100000); break; }
			cs.limit = w * 604800 + d * 86400 + h * 3600 + m * 60 + s;
			cs.iso = "P"; if (w) cs.iso += std::to_string(w) + "W"; if (d) cs.iso += std::to_string(d) + "D"; if (h || m || s) { cs.iso += "T"; if (h) cs.iso += std::to_string(h) + "H"; if (m) cs.iso += std::to_string(m) + "M"; if (s) cs.iso += std::to_string(s) + "S"; }
		} else if (cs.form == "dtend") { int k = *R(0, 4); cs.limit = k == 0 ? *R(1, 59) : k == 1 ? *R(60, 7200) : k == 2 ? *R(7200, 172800) : *R(1, 1500000); }
		else { int k = *R(0, 5); cs.limit = k == 0 ? -*R(0, 5000) : k == 1 ? *R(3, 60) : k == 4 ? 0 : *R(60, 500000); }   // 0: due in the very second the request arrives
		std::string txt = ctext(cs);
		Verdict v = judge(cs);
		c.st.record(txt, v);
		if (v.k == Verdict::FAIL && survey) { std::string m = v.msg; size_t b = m.find("] "); c.st.survey_add((b == std::string::npos ? m : m.substr(b + 2)).substr(0, 40), txt + " :: " + v.msg); return; }
		if (v.k == Verdict::FAIL) { c.note_fail(txt, v.msg); RC_FAIL(v.msg); }
	});
}
