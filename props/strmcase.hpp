// Helpers shared by the stream properties: event text rendering, running the
// parser/stream shim in the sandbox, decoding its canonical output.
#pragma once
#include "harness.hpp"
#include "civil.hpp"
#include "rrule_ref.hpp"
#include "sut.h"

namespace sc {

struct Occ { int64_t ms; int kind; int64_t dur; };   // kind: 0 ms, 1 all-sec, 2 all-day

inline bool parse_occ_line(const std::string &ln, Occ &o) {
	int y, m, d, H, M, S, ms; long long dur = 0;
	int n = sscanf(ln.c_str(), "O %d,%d,%d,%d,%d,%d,%d %lld", &y, &m, &d, &H, &M, &S, &ms, &dur);
	if (n < 7) return false;
	o.kind = H == SUT_ALL_DAY ? 2 : ms == SUT_ALL_SEC ? 1 : 0;
	if (m < 1 || m > 12 || d < 1 || d > 31) { o.ms = INT64_MIN + y; return true; }   // not a calendar date: keep a marker
	o.ms = o.kind == 2 ? civil::to_ms(y, (unsigned)m, (unsigned)d) : civil::to_ms(y, (unsigned)m, (unsigned)d, (unsigned)H, (unsigned)M, (unsigned)S, o.kind == 0 ? (unsigned)ms : 0);
	o.dur = dur;
	return true;
}

struct Unrolled {
	vh::SbxResult sbx;
	std::vector<std::vector<Occ>> tasks;   // per SCHE instruction
	std::vector<bool> ended;               // END seen (true) or MORE (false)
	std::vector<std::string> headers;
	bool peekdiff = false;
	std::string raw;
};

inline Unrolled unroll_text(const std::string &ics, int nocc, int flags, double cpu_s = 10.0, const std::vector<size_t> &chunks = {}) {
	Unrolled u;
	u.sbx = vh::sandbox([&](vh::Out &o) {
		sut_buf_t b = {nullptr, 0, 0};
		sut_parse_dump(ics.data(), ics.size(), chunks.empty() ? nullptr : chunks.data(), chunks.size(), nocc, flags, &b);
		if (b.p) o.put(std::string(b.p, b.n));
	}, cpu_s);
	if (!u.sbx.ok()) return u;
	u.raw = u.sbx.out;
	std::stringstream ss(u.sbx.out); std::string ln;
	while (std::getline(ss, ln)) {
		if (ln.compare(0, 5, "SCHE ") == 0 || ln.compare(0, 6, "LAST: ") == 0) { u.tasks.emplace_back(); u.ended.push_back(false); u.headers.push_back(ln); }
		else if (ln.compare(0, 2, "O ") == 0) { Occ o{0, 0, 0}; if (!u.tasks.empty() && parse_occ_line(ln, o)) u.tasks.back().push_back(o); }
		else if (ln == "END" || ln == "NOSTRM") { if (!u.ended.empty()) u.ended.back() = true; }
		else if (ln == "PEEKDIFF") u.peekdiff = true;
	}
	return u;
}

inline std::string vevent(const std::string &uid, int64_t dtstart, bool date_only, const std::vector<std::string> &lines, const std::string &dtstart_params = "") {
	std::string s = "BEGIN:VEVENT\nUID:" + uid + "\nSUMMARY:job " + uid + "\n";
	if (date_only) s += "DTSTART;VALUE=DATE" + dtstart_params + ":" + civil::fmt_ical(dtstart, true) + "\n";
	else s += "DTSTART" + dtstart_params + ":" + civil::fmt_ical(dtstart, false) + "\n";
	for (auto &l : lines) s += l + "\n";
	s += "END:VEVENT\n";
	return s;
}
inline std::string vcal(const std::string &body) { return "BEGIN:VCALENDAR\nVERSION:2.0\nPRODID:-//verif//EN\n" + body + "END:VCALENDAR\n"; }

inline std::string occ_txt(int64_t t, bool date_only) { return civil::fmt_ical(t, date_only); }

} // namespace sc
