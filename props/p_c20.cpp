// C20  Instant and event sorting is a stable ordering permutation.
#include "harness.hpp"
#include "civil.hpp"
#include "sut.h"
#include <rapidcheck.h>
#include <tuple>

using namespace vh;

static auto key(const sut_inst_t &i) {
	// all-day before timed on the same day; all-sec before ms within the same second
	bool ad = i.H == SUT_ALL_DAY, as = i.ms == SUT_ALL_SEC;
	return std::make_tuple(i.y, i.m, i.d, ad ? -1 : i.H, ad ? 0 : i.M, ad ? 0 : i.S, ad ? 0 : (as ? -1 : i.ms));
}
static std::string itxt(const sut_inst_t &i) {
	char b[64];
	if (i.H == SUT_ALL_DAY) snprintf(b, sizeof b, "%04d%02d%02d", i.y, i.m, i.d);
	else if (i.ms == SUT_ALL_SEC) snprintf(b, sizeof b, "%04d%02d%02dT%02d%02d%02d", i.y, i.m, i.d, i.H, i.M, i.S);
	else snprintf(b, sizeof b, "%04d%02d%02dT%02d%02d%02d.%03d", i.y, i.m, i.d, i.H, i.M, i.S, i.ms);
	return b;
}

// A case is fully described by (what, n, pattern, nkeys, seed): the array is
// re-derived deterministically with a private LCG so that replay files stay small.
struct Case { int events = 0; int n = 0; int pattern = 0; int nkeys = 1; uint32_t seed = 1; };
static std::string ctext(const Case &c) {
	char b[128]; snprintf(b, sizeof b, "what=%s n=%d pattern=%d nkeys=%d seed=%u", c.events ? "events" : "instants", c.n, c.pattern, c.nkeys, c.seed); return b;
}
static bool cparse(const std::string &t, Case &c) {
	char w[32];
	if (sscanf(t.c_str(), "what=%31s n=%d pattern=%d nkeys=%d seed=%u", w, &c.n, &c.pattern, &c.nkeys, &c.seed) != 5) return false;
	c.events = !strcmp(w, "events");
	return c.n >= 0 && c.n <= 1 << 16 && c.nkeys >= 1;
}
static std::vector<sut_inst_t> build(const Case &c) {
	uint64_t st = c.seed * 2654435761ULL + 12345;
	auto rnd = [&]() { st = st * 6364136223846793005ULL + 1442695040888963407ULL; return (uint32_t)(st >> 33); };
	// key pool: nkeys distinct-ish instants over a few days with mixed kinds
	std::vector<sut_inst_t> pool;
	int64_t base = civil::days_from_civil(1901 + (int)(rnd() % 198), 1 + (int)(rnd() % 12), 1 + (int)(rnd() % 28));
	for (int k = 0; k < c.nkeys; k++) {
		civil::YMD d = civil::civil_from_days(base + (int64_t)(rnd() % (uint32_t)std::max(1, c.nkeys / 4 + 1)));
		sut_inst_t i{d.y, (int)d.m, (int)d.d, (int)(rnd() % 24), (int)(rnd() % 60), (int)(rnd() % 60), (int)(rnd() % 1000)};
		uint32_t kd = rnd() % 8;
		if (kd < 2) { i.H = SUT_ALL_DAY; i.M = i.S = i.ms = 0; }
		else if (kd < 5) i.ms = SUT_ALL_SEC;
		else if (kd == 5) { i.H = 0; i.M = 0; i.S = 0; i.ms = rnd() % 2 ? 0 : SUT_ALL_SEC; }
		pool.push_back(i);
	}
	std::vector<sut_inst_t> a((size_t)c.n);
	for (int j = 0; j < c.n; j++) a[(size_t)j] = pool[rnd() % pool.size()];
	auto lt = [](const sut_inst_t &x, const sut_inst_t &y) { return key(x) < key(y); };
	switch (c.pattern) {
	case 1: std::stable_sort(a.begin(), a.end(), lt); break;                                   // presorted
	case 2: std::stable_sort(a.begin(), a.end(), lt); std::reverse(a.begin(), a.end()); break;  // reversed
	case 3: { std::stable_sort(a.begin(), a.end(), lt); std::vector<sut_inst_t> b; int per = 1 + (int)(rnd() % 37);   // sawtooth
		for (int o = 0; o < per; o++) for (size_t j = (size_t)o; j < a.size(); j += (size_t)per) b.push_back(a[j]); a = b; break; }
	case 4: { std::stable_sort(a.begin(), a.end(), lt); std::vector<sut_inst_t> b(a.size());   // organ pipe
		size_t l = 0, r = a.size(); for (size_t j = 0; j < a.size(); j++) { if (j % 2 == 0) b[l++] = a[j]; else b[--r] = a[j]; } a = b; break; }
	case 5: if (!a.empty()) { std::stable_sort(a.begin(), a.end(), lt); for (int s = 0; s < 3; s++) std::swap(a[rnd() % a.size()], a[rnd() % a.size()]); } break; // nearly sorted
	default: break; // random
	}
	return a;
}

static std::string judge(const Case &c) {
	std::vector<sut_inst_t> in = build(c);
	size_t n = in.size();
	if (!c.events) {
		std::vector<sut_inst_t> a = in;
		sut_instant_sort(a.data(), n);
		for (size_t j = 1; j < n; j++) if (key(a[j]) < key(a[j - 1])) return "not in chronological order at index " + std::to_string(j) + ": " + itxt(a[j - 1]) + " before " + itxt(a[j]);
		std::vector<sut_inst_t> x = in, y = a;
		auto full = [](const sut_inst_t &p, const sut_inst_t &q) { return std::make_tuple(key(p), p.H, p.M, p.S, p.ms) < std::make_tuple(key(q), q.H, q.M, q.S, q.ms); };
		std::sort(x.begin(), x.end(), full); std::sort(y.begin(), y.end(), full);
		for (size_t j = 0; j < n; j++) if (memcmp(&x[j], &y[j], sizeof x[j])) return "output is not a permutation of the input (first difference in sorted multisets at " + std::to_string(j) + ": input has " + itxt(x[j]) + ", output has " + itxt(y[j]) + ")";
		return "";
	}
	std::vector<sut_event_t> ev(n);
	for (size_t j = 0; j < n; j++) { ev[j].from = in[j]; ev[j].dur = (int64_t)(j % 7) * 1000; ev[j].oid = (uint32_t)(j % 5 + 1); ev[j].serial = (uint32_t)j; }
	std::vector<sut_event_t> a = ev;
	sut_event_sort(a.data(), n);
	std::vector<char> seen(n, 0);
	for (size_t j = 0; j < n; j++) {
		if (a[j].serial >= n || seen[a[j].serial]) return "output is not a permutation: element with serial " + std::to_string(a[j].serial) + " duplicated or invented at index " + std::to_string(j);
		seen[a[j].serial] = 1;
		const sut_event_t &o = ev[a[j].serial];
		if (memcmp(&o.from, &a[j].from, sizeof o.from) || o.dur != a[j].dur || o.oid != a[j].oid) return "element " + std::to_string(a[j].serial) + " was altered by sorting";
		if (j) {
			if (key(a[j].from) < key(a[j - 1].from)) return "not in chronological order at index " + std::to_string(j) + ": " + itxt(a[j - 1].from) + " before " + itxt(a[j].from);
			if (key(a[j].from) == key(a[j - 1].from) && a[j].serial < a[j - 1].serial) return "not stable: equal keys " + itxt(a[j].from) + " at output index " + std::to_string(j) + " came in as #" + std::to_string(a[j - 1].serial) + " then #" + std::to_string(a[j].serial) + " reversed";
		}
	}
	return "";
}

static Verdict classify(const Case &c, const std::string &msg) {
	Verdict v = msg.empty() ? Verdict::pass() : Verdict::fail(msg);
	const char *lb = c.n < 2 ? "0-1" : c.n <= 32 ? "2-32" : c.n <= 64 ? "33-64" : c.n <= 511 ? "65-511" : c.n <= 1023 ? "512-1023" : c.n <= 2047 ? "1024-2047" : c.n <= 4096 ? "2048-4096" : ">4096";
	v.classes.push_back(std::string(c.events ? "events/len" : "instants/len") + lb);
	static const char *pn[] = {"random", "presorted", "reversed", "sawtooth", "organpipe", "nearlysorted"};
	v.classes.push_back(std::string("pattern/") + pn[c.pattern % 6]);
	v.nontrivial = c.n > 32 && c.nkeys < c.n;   // pigeonhole: at least one duplicate key
	return v;
}
static Verdict judge_sandboxed(const Case &c) {
	SbxResult r = sandbox([&](Out &o) { o.put(judge(c)); }, 20.0);
	return classify(c, r.ok() ? r.out : r.describe());
}
Verdict prop_replay(Ctx &, const std::string &t) {
	Case c; if (!cparse(t, c)) return Verdict::inconclusive("unparseable case");
	return judge_sandboxed(c);
}

void prop_gen(Ctx &c) {
	// fixed boundary lengths first (all patterns, few + many keys), dealt to workers
	static const int L[] = {0, 1, 2, 3, 4, 7, 8, 15, 16, 17, 31, 32, 33, 63, 64, 65, 127, 128, 129, 255, 256, 257, 511, 512, 513, 1023, 1024, 1025, 1535, 2047, 2048, 2049, 3000, 4095, 4096, 4097, 8191, 8192, 8193};
	int unit = 0;
	for (int ev = 0; ev < 2 && !c.fail.have; ev++) for (int n : L) for (int p = 0; p < 6 && !c.fail.have; p++) for (int nk : {1, 2, 5, 40, 100000}) {
		if (unit++ % c.nworkers != c.worker) continue;
		if (c.tier != "thorough" && n > 4097 && p > 1) continue;
		Case cs; cs.events = ev; cs.n = n; cs.pattern = p; cs.nkeys = std::min(nk, std::max(1, n)); if (nk == 100000) cs.nkeys = std::max(1, n * 3 / 4); cs.seed = (uint32_t)(c.seed * 7919 + (uint64_t)unit);
		Verdict v = judge_sandboxed(cs);
		c.st.record(ctext(cs), v);
		if (v.k == Verdict::FAIL) { c.note_fail(ctext(cs), v.msg); break; }
	}
	if (c.fail.have) return;
	std::string params = "seed=" + std::to_string(c.seed) + " max_success=" + std::to_string(c.cases) + " max_size=" + std::to_string(c.size);
	setenv("RC_PARAMS", params.c_str(), 1);
	using rc::gen::inRange; using rc::gen::resize;
	auto genN = resize(1000, rc::gen::weightedOneOf<int>({{3, inRange(0, 4097)}, {2, inRange(0, 80)}, {2, rc::gen::map(rc::gen::pair(inRange(5, 13), inRange(-3, 4)), [](std::pair<int, int> p) { return std::max(0, (1 << p.first) + p.second); })}, {1, inRange(1000, 4200)}}));
	auto genCase = rc::gen::map(rc::gen::tuple(resize(1000, inRange(0, 2)), genN, resize(1000, inRange(0, 6)), resize(1000, inRange(0, 6)), resize(1000, inRange<uint32_t>(1, 1u << 30))), [](std::tuple<int, int, int, int, uint32_t> t) {
		Case cs; cs.events = std::get<0>(t); cs.n = std::get<1>(t); cs.pattern = std::get<2>(t); cs.seed = std::get<4>(t);
		int kc = std::get<3>(t);
		cs.nkeys = kc == 0 ? 1 : kc == 1 ? 2 : kc == 2 ? 7 : kc == 3 ? std::max(1, cs.n / 8) : kc == 4 ? std::max(1, cs.n / 2) : std::max(1, cs.n - 1);
		return cs; });
	rc::check("C20 sampled", [&]() {
		if (c.shrink_exhausted()) return;
		Case cs = *genCase;
		Verdict v = judge_sandboxed(cs);
		c.st.record(ctext(cs), v);
		if (v.k == Verdict::FAIL) { c.note_fail(ctext(cs), v.msg); RC_FAIL(v.msg); }
	});
}
