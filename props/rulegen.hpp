// rapidcheck generators for RRULEs of the RFC 5545 language echse supports.
// Everything is built by construction (no filtering): only part/FREQ
// combinations the RFC defines are produced (see DESIGN.md section 3).
#pragma once
#include <rapidcheck.h>
#include "rrule_ref.hpp"

namespace rgen {
using rref::Rule; using rref::Freq;
using rc::Gen; using rc::gen::inRange; using rc::gen::resize;

struct RuleCase {
	Rule rule;
	int64_t seed_ms = 0;    // random seed instant, DTSTART is synchronised from it
	bool date_only = false;
	int until_mode = 0;     // 0 none, 1 on an instance, 2 one second/day before an instance, 3 between, 4 far
	int until_index = 0;
	int count_mode = 0;
};

inline Gen<int> R(int lo, int hi) { return resize(1000, inRange(lo, hi)); }   // [lo,hi)

// list of values: single (50 %), 2, 3, 4
inline Gen<std::vector<int>> lstn(Gen<int> g) {
	return rc::gen::mapcat(R(0, 10), [=](int sel) -> Gen<std::vector<int>> {
		size_t n = sel < 5 ? 1 : sel < 8 ? 2 : sel < 9 ? 3 : 4;
		return rc::gen::container<std::vector<int>>(n, g);
	});
}

// signed list classes: positive, all-negative, mixed, extremes
inline Gen<std::vector<int>> signed_list(int maxabs) {
	return rc::gen::mapcat(R(0, 10), [=](int cls) -> Gen<std::vector<int>> {
		if (cls < 4) return lstn(R(1, maxabs + 1));
		if (cls < 6) return lstn(rc::gen::map(R(1, maxabs + 1), [](int v) { return -v; }));
		if (cls < 8) return lstn(rc::gen::map(rc::gen::pair(R(1, maxabs + 1), R(0, 2)), [](std::pair<int, int> p) { return p.second ? -p.first : p.first; }));
		if (cls < 9) return lstn(rc::gen::element(1, -1, maxabs, -maxabs, maxabs - 1, -(maxabs - 1)));
		return lstn(rc::gen::map(rc::gen::pair(R(1, 4), R(0, 2)), [](std::pair<int, int> p) { return p.second ? -p.first : p.first; }));
	});
}
inline Gen<std::vector<int>> unsigned_list(int lo, int hi) {   // [lo,hi]
	return rc::gen::mapcat(R(0, 10), [=](int cls) -> Gen<std::vector<int>> {
		if (cls < 6) return lstn(R(lo, hi + 1));
		if (cls < 8) return lstn(rc::gen::element(lo, hi, lo + 1, hi - 1));
		return rc::gen::container<std::vector<int>>((size_t)1, rc::gen::just(lo));   // single minimum (0 for H/M/S)
	});
}
inline Gen<std::vector<std::pair<int, int>>> byday_plain() {
	return rc::gen::map(lstn(R(1, 8)), [](std::vector<int> v) { std::vector<std::pair<int, int>> o; for (int w : v) o.push_back({0, w}); return o; });
}
inline Gen<std::vector<std::pair<int, int>>> byday_ord(int maxord) {
	auto one = rc::gen::map(rc::gen::tuple(R(1, 8), R(0, 10), R(1, maxord + 1)), [=](std::tuple<int, int, int> t) {
		int w = std::get<0>(t), c = std::get<1>(t), o = std::get<2>(t);
		if (c < 2) return std::make_pair(0, w);
		if (c < 6) return std::make_pair(o <= 5 || maxord <= 5 ? o : (c == 5 ? o : o % 5 + 1), w);
		if (c < 9) return std::make_pair(-(o <= 5 || maxord <= 5 ? o : o % 5 + 1), w);
		return std::make_pair(c == 9 ? maxord : -maxord, w);
	});
	return rc::gen::mapcat(R(0, 10), [=](int sel) { size_t n = sel < 5 ? 1 : sel < 8 ? 2 : 3; return rc::gen::container<std::vector<std::pair<int, int>>>(n, one); });
}

inline int64_t seed_instant(int cls, int y, int m, int d, int tod) {
	// phase classes: 29 Feb, 31st, 53-week years, year ends, 5th weekday
	switch (cls) {
	case 0: { int ly = 1904 + (y - 1902) / 4 * 4; if (ly > 2096) ly = 2096; return civil::to_ms(ly, 2, 29) + tod * 1000LL; }
	case 1: { static const int m31[] = {1, 3, 5, 7, 8, 10, 12}; return civil::to_ms(y, (unsigned)m31[m % 7], 31) + tod * 1000LL; }
	case 2: return civil::to_ms(y, 12, 31) + tod * 1000LL;
	case 3: return civil::to_ms(y, 1, 1) + tod * 1000LL;
	case 4: return civil::to_ms(y, (unsigned)m, 29 + d % 2 <= (int)civil::days_in_month(y, (unsigned)m) ? 29 + d % 2 : 28) + tod * 1000LL;
	default: return civil::to_ms(y, (unsigned)m, (unsigned)std::min<int>(d, (int)civil::days_in_month(y, (unsigned)m))) + tod * 1000LL;
	}
}

inline Gen<RuleCase> rule_case(bool allow_subdaily = true) {
	auto genSeed = rc::gen::map(rc::gen::tuple(R(0, 12), R(1902, 2097), R(1, 13), R(1, 32), R(0, 86400), R(0, 8)), [](std::tuple<int, int, int, int, int, int> t) {
		int tod = std::get<4>(t); int tc = std::get<5>(t);
		if (tc == 0) tod = 0; else if (tc == 1) tod = 86399; else if (tc == 2) tod = tod / 3600 * 3600; else if (tc == 3) tod = tod / 60 * 60;
		return seed_instant(std::get<0>(t), std::get<1>(t), std::get<2>(t), std::get<3>(t), tod);
	});
	return rc::gen::mapcat(rc::gen::tuple(R(1, allow_subdaily ? 8 : 5), R(0, 100), genSeed), [=](std::tuple<int, int, int64_t> hd) -> Gen<RuleCase> {
		Freq f = (Freq)std::get<0>(hd);
		bool date_only = f <= rref::DAILY && std::get<1>(hd) < 40;
		int64_t seed = std::get<2>(hd);
		// interval
		auto genIv = rc::gen::map(rc::gen::pair(R(0, 10), R(0, 1000)), [f](std::pair<int, int> p) {
			if (p.first < 5) return 1;
			if (p.first < 8) return 2 + p.second % 11;
			static const int big[] = {0, 13, 25, 60, 400, 50, 100, 100};   // per FREQ upper bounds
			return 13 + p.second % big[f];
		});
		// day-selection mode per FREQ
		auto genParts = rc::gen::mapcat(R(0, 100), [=](int sel) -> Gen<Rule> {
			Rule base; base.freq = f;
			auto with = [](Rule r, std::function<void(Rule &)> fn) { fn(r); return r; };
			auto opt_bymonth = [=](Gen<Rule> g, int pct) {
				return rc::gen::mapcat(rc::gen::pair(R(0, 100), unsigned_list(1, 12)), [=](std::pair<int, std::vector<int>> p) { return rc::gen::map(g, [=](Rule r) { if (p.first < pct) r.bymonth = p.second; return r; }); });
			};
			Gen<Rule> g = rc::gen::just(base);
			switch (f) {
			case rref::YEARLY:
				if (sel < 12) g = rc::gen::just(base);
				else if (sel < 24) return rc::gen::map(unsigned_list(1, 12), [=](std::vector<int> v) { Rule r = base; r.bymonth = v; return r; });
				else if (sel < 44) return opt_bymonth(rc::gen::map(rc::gen::tuple(signed_list(31), R(0, 10), byday_plain()), [=](std::tuple<std::vector<int>, int, std::vector<std::pair<int, int>>> t) { Rule r = base; r.bymonthday = std::get<0>(t); if (std::get<1>(t) < 2) r.byday = std::get<2>(t); return r; }), 60);
				else if (sel < 56) return opt_bymonth(rc::gen::map(rc::gen::tuple(signed_list(366), R(0, 10), byday_plain()), [=](std::tuple<std::vector<int>, int, std::vector<std::pair<int, int>>> t) { Rule r = base; r.byyearday = std::get<0>(t); if (std::get<1>(t) < 2) r.byday = std::get<2>(t); return r; }), 20);
				else if (sel < 68) return opt_bymonth(rc::gen::map(rc::gen::pair(signed_list(53), byday_plain()), [=](std::pair<std::vector<int>, std::vector<std::pair<int, int>>> t) { Rule r = base; r.byweekno = t.first; r.byday = t.second; return r; }), 10);
				else if (sel < 84) return rc::gen::map(rc::gen::pair(byday_ord(5), unsigned_list(1, 12)), [=](std::pair<std::vector<std::pair<int, int>>, std::vector<int>> t) { Rule r = base; r.byday = t.first; r.bymonth = t.second; return r; });
				else return rc::gen::map(byday_ord(53), [=](std::vector<std::pair<int, int>> v) { Rule r = base; r.byday = v; return r; });
				break;
			case rref::MONTHLY:
				if (sel < 20) g = rc::gen::just(base);
				else if (sel < 55) g = rc::gen::map(rc::gen::tuple(signed_list(31), R(0, 10), byday_plain()), [=](std::tuple<std::vector<int>, int, std::vector<std::pair<int, int>>> t) { Rule r = base; r.bymonthday = std::get<0>(t); if (std::get<1>(t) < 2) r.byday = std::get<2>(t); return r; });
				else g = rc::gen::map(byday_ord(5), [=](std::vector<std::pair<int, int>> v) { Rule r = base; r.byday = v; return r; });
				return opt_bymonth(g, 30);
			case rref::WEEKLY:
				if (sel < 40) g = rc::gen::just(base);
				else g = rc::gen::map(byday_plain(), [=](std::vector<std::pair<int, int>> v) { Rule r = base; r.byday = v; return r; });
				return opt_bymonth(g, 25);
			default:   // DAILY and finer: limit filters
				g = rc::gen::map(rc::gen::tuple(R(0, 100), signed_list(31), R(0, 100), byday_plain(), R(0, 100), signed_list(366)), [=](std::tuple<int, std::vector<int>, int, std::vector<std::pair<int, int>>, int, std::vector<int>> t) {
					Rule r = base;
					if (std::get<0>(t) < 25) r.bymonthday = std::get<1>(t);
					if (std::get<2>(t) < 25) r.byday = std::get<3>(t);
					if (f >= rref::HOURLY && std::get<4>(t) < 8) r.byyearday = std::get<5>(t);
					return r; });
				return opt_bymonth(g, 25);
			}
			return g;
		});
		return rc::gen::map(rc::gen::tuple(genParts, genIv,
			rc::gen::tuple(R(0, 100), unsigned_list(0, 23), R(0, 100), unsigned_list(0, 59), R(0, 100), unsigned_list(0, 59)),
			rc::gen::tuple(R(0, 100), signed_list(3), R(0, 100), R(0, 100), R(0, 5), R(0, 40))),
			[=](std::tuple<Rule, int, std::tuple<int, std::vector<int>, int, std::vector<int>, int, std::vector<int>>, std::tuple<int, std::vector<int>, int, int, int, int>> t) {
				RuleCase c; c.rule = std::get<0>(t); c.rule.interval = std::get<1>(t); c.seed_ms = seed; c.date_only = date_only;
				auto &tp = std::get<2>(t); auto &x = std::get<3>(t);
				if (!date_only) {
					int pct = f >= rref::HOURLY ? 35 : 22;
					if (std::get<0>(tp) < pct) c.rule.byhour = std::get<1>(tp);
					if (std::get<2>(tp) < pct) c.rule.byminute = std::get<3>(tp);
					if (std::get<4>(tp) < pct) c.rule.bysecond = std::get<5>(tp);
				} else c.seed_ms -= civil::floormod(c.seed_ms, civil::MS_DAY);
				if (std::get<0>(x) < 15 && c.rule.nparts() > 0) c.rule.bysetpos = std::get<1>(x);
				// COUNT xor UNTIL
				int cu = std::get<2>(x), cv = std::get<3>(x);
				if (cu < 30) { c.count_mode = 1 + cv % 5; static const int lo[] = {0, 1, 60, 120, 190, 2}, span[] = {0, 5, 11, 16, 11, 40}; c.rule.count = lo[c.count_mode] + cv % span[c.count_mode]; }
				else if (cu < 55) { c.until_mode = 1 + std::get<4>(x) % 4; c.until_index = std::get<5>(x); }
				return c; });
	});
}

} // namespace rgen
