// C04  Daemon runs every future occurrence exactly once, on time, in order.
// Model-based over generated histories (add / replace / cancel / clock advances with late wake-ups /
// child exits in generated order) against the echsd harness with virtual time.
#include "daemon.hpp"
#include "rulegen.hpp"

using namespace vh;
using namespace dm;

static double T0 = 1577872800.0;   // 2020-01-01T10:00:00Z, the harness' initial "now" unless the script starts the clock elsewhere (NOW t)

struct Op { std::string kind; unsigned peer = 1000; std::string uid, ics; double dt = 0, late = 0.001; int which = 0; };

static std::string event_ics(const std::string &uid, int64_t dtstart_s, const std::vector<std::string> &lines, bool cancel = false) {
	std::string b = "BEGIN:VCALENDAR\nVERSION:2.0\n";
	if (cancel) b += "METHOD:CANCEL\n";
	b += "BEGIN:VEVENT\nUID:" + uid + "\nSUMMARY:job " + uid + "\nDTSTART:" + civil::fmt_ical(dtstart_s * 1000, false) + "\n";
	for (auto &l : lines) b += l + "\n";
	b += "END:VEVENT\nEND:VCALENDAR\n";
	return b;
}

// occurrences (unix seconds, with ms fraction) of an event, taken from an independent parse through the library shim
static bool occurrences_of(const std::string &ics, double until, std::vector<double> &out, std::string &err, bool *more = nullptr) {
	sc::Unrolled u = sc::unroll_text(ics, 9000, SUT_F_NO_ATTRS, 20.0);
	if (!u.sbx.ok()) { err = u.sbx.describe(); return false; }
	out.clear();
	if (u.tasks.empty()) return true;
	if (more) *more = false;
	for (auto &o : u.tasks[0]) { double t = (double)o.ms / 1000.0; if (t > until + 1) { if (more) *more = true; break; } out.push_back(t); }
	if (!u.ended[0] && (u.tasks[0].empty() || (double)u.tasks[0].back().ms / 1000.0 <= until)) { err = "too many occurrences for the model window"; return false; }
	return true;
}

struct Live { double loaded; std::vector<double> occ; size_t next = 0; unsigned owner; bool cancelled = false; int running = 0; bool more = false; };

static bool g_trace = false;
static Verdict judge_script(const std::string &script, std::vector<std::string> *classes_out = nullptr) {
	// ---- decode the script into ops and events (the script is the case)
	struct SOp { std::string kind; unsigned peer = 0; std::string ics; double to = 0, late = 0; };
	std::vector<SOp> ops;
	{ size_t p = 0; while (p < script.size()) { size_t e = script.find('\n', p); if (e == std::string::npos) e = script.size(); std::string ln = script.substr(p, e - p); p = e + 1;
		if (ln.compare(0, 7, "SUBMIT ") == 0) { unsigned peer; size_t ch, n; sscanf(ln.c_str() + 7, "%u %zu %zu", &peer, &ch, &n); SOp o; o.kind = "SUBMIT"; o.peer = peer; o.ics = script.substr(p, n); p += n + 1; ops.push_back(o); }
		else if (ln.compare(0, 4, "ADV ") == 0) { SOp o; o.kind = "ADV"; sscanf(ln.c_str() + 4, "%lf %lf", &o.to, &o.late); ops.push_back(o); }
		else if (!ln.empty()) { SOp o; o.kind = ln.substr(0, ln.find(' ')); ops.push_back(o); } } }
	T0 = 1577872800.0; { size_t np = script.find("\nNOW "); if (np != std::string::npos && np < 64) T0 = atof(script.c_str() + np + 5); }
	double tend = T0; for (auto &o : ops) if (o.kind == "ADV") tend = std::max(tend, o.to + o.late);
	std::string spool = make_spool(); if (spool.empty()) return Verdict::inconclusive("no spool");
	Trace tr = run_session(spool, script, 30.0);
	rm_rf(spool);
	if (g_trace) fprintf(stderr, "%s\n[%s]\n", tr.raw.c_str(), tr.sbx.describe().c_str());
	if (tr.sbx.st == SbxResult::TIMEOUT) return Verdict::fail("the daemon did not finish the history within 30 CPU seconds");
	if (!tr.sbx.ok()) return Verdict::fail(tr.sbx.describe());
	// ---- replay the trace against the model
	std::map<std::string, Live> live;   // by UID
	std::map<int, std::string> pid_uid;
	size_t opi = 0; double now = T0; double last_late = 0.001;
	bool late_multi = false, change_between = false, exit_between = false; size_t nspawn = 0, restarts = 0;
	auto uid_of = [](const std::string &ics) { size_t p = ics.find("\nUID:"); if (p == std::string::npos) return std::string(); size_t e = ics.find('\n', p + 1); return ics.substr(p + 5, e - p - 5); };
	for (size_t i = 0; i < tr.ev.size(); i++) {
		const Ev &e = tr.ev[i];
		switch (e.k) {
		case Ev::SUBMIT: {
			while (opi < ops.size() && ops[opi].kind != "SUBMIT") opi++;
			if (opi >= ops.size()) return Verdict::inconclusive("trace/script mismatch");
			const SOp &o = ops[opi++]; now = e.t;
			bool cancel = o.ics.find("METHOD:CANCEL") != std::string::npos; std::string uid = uid_of(o.ics);
			// the reply follows
			const Ev *rp = nullptr; for (size_t j = i + 1; j < tr.ev.size() && j < i + 3; j++) if (tr.ev[j].k == Ev::REPLY) { rp = &tr.ev[j]; break; }
			bool ok = rp && rp->rp.status.size() == 1 && rp->rp.status[0].second[0] == '2';
			if (!rp || rp->rp.status.size() != 1) return Verdict::fail("request for " + uid + " at t=" + std::to_string(e.t - T0) + " got " + std::to_string(rp ? rp->rp.status.size() : 0) + " status replies instead of one");
			if (cancel) { auto it = live.find(uid); if (it != live.end() && !it->second.cancelled && it->second.owner == o.peer) { const Live &L = it->second; bool retired = L.next >= L.occ.size() && !L.more;   // already removed after its last occurrence: nothing to cancel
					if (!ok && retired) { it->second.cancelled = true; break; }
					if (!ok) return Verdict::fail("cancel of " + uid + " was refused"); if (it->second.next < it->second.occ.size()) change_between = true; it->second.cancelled = true; } break; }
			if (!ok) { // a refused add: acceptable only if the event has no stream (no occurrences at all) — otherwise the model expects acceptance
				std::vector<double> oc; std::string err; if (!occurrences_of(o.ics, tend, oc, err)) return Verdict::inconclusive(err);
				auto it = live.find(uid); if (it != live.end() && !it->second.cancelled && it->second.owner != o.peer) break;   // cross-user replace: refusal is right
				return Verdict::fail("add of " + uid + " was refused (" + rp->rp.status[0].second + ")"); }
			Live l; l.loaded = e.t; l.owner = o.peer; std::string err;
			if (!occurrences_of(o.ics, tend, l.occ, err, &l.more)) return Verdict::inconclusive(err);
			// occurrences before the load time are never run
			while (l.next < l.occ.size() && l.occ[l.next] < e.t) l.next++;
			auto it = live.find(uid); if (it != live.end() && !it->second.cancelled && it->second.next < it->second.occ.size()) change_between = true;
			int running = it != live.end() ? it->second.running : 0;
			live[uid] = l; live[uid].running = running;
			break; }
		case Ev::SPAWN: {
			nspawn++; now = e.sp.t;
			auto it = live.find(e.sp.uid);
			if (it == live.end() || it->second.cancelled) return Verdict::fail("t=+" + std::to_string(e.sp.t - T0) + ": an execution is started for " + e.sp.uid + " which is not (or no longer) queued");
			Live &l = it->second;
			if (e.sp.norun) return Verdict::fail("t=+" + std::to_string(e.sp.t - T0) + ": the occurrence of " + e.sp.uid + " is reported as not run although the task has no MAX-SIMUL limit");
			if (l.next >= l.occ.size()) return Verdict::fail("t=+" + std::to_string(e.sp.t - T0) + ": " + e.sp.uid + " is executed although all its occurrences have been run (more runs than occurrences)");
			if (std::floor(l.occ[l.next]) > e.sp.t) return Verdict::fail("t=+" + std::to_string(e.sp.t - T0) + ": " + e.sp.uid + " is executed before its next occurrence at +" + std::to_string(l.occ[l.next] - T0) + " is due");
			// everything strictly before the wake-up collapses into this run; an occurrence at the very instant of the wake-up is a run of its own
			size_t consumed = 1; l.next++; while (l.next < l.occ.size() && l.occ[l.next] < e.sp.t) { l.next++; consumed++; }
			if (consumed >= 2) late_multi = true;
			l.running++; pid_uid[e.sp.pid] = e.sp.uid;
			break; }
		case Ev::EXIT: { auto p = pid_uid.find(e.pid); if (p != pid_uid.end()) { auto it = live.find(p->second); if (it != live.end()) it->second.running--; // an exit between a due time and its wake-up
				for (auto &kv : live) if (!kv.second.cancelled && kv.second.next < kv.second.occ.size() && kv.second.occ[kv.second.next] <= e.t) exit_between = true; pid_uid.erase(p); } break; }
		case Ev::TIME: {
			while (opi < ops.size() && ops[opi].kind != "ADV") opi++;
			if (opi < ops.size()) last_late = ops[opi++].late;
			now = e.t;
			// nothing due (by more than the lateness) may be left unrun
			for (auto &kv : live) { Live &l = kv.second; if (l.cancelled) continue; if (l.next < l.occ.size() && l.occ[l.next] + last_late + 0.01 < e.t) return Verdict::fail("t=+" + std::to_string(e.t - T0) + ": the occurrence of " + kv.first + " at +" + std::to_string(l.occ[l.next] - T0) + " has not been run (zero runs for a due occurrence)"); }
			break; }
		case Ev::OTHER: {
			if (e.raw.compare(0, 10, "RESTART t=") != 0) break;
			double t = atof(e.raw.c_str() + 10); restarts++;
			// every task still queued is loaded again at t: occurrences before t are not made up for; running executions are no longer the daemon's
			for (auto &kv : live) { Live &l = kv.second; if (l.cancelled) continue; if (l.next >= l.occ.size() && !l.more) { l.cancelled = true; continue; } l.loaded = t; while (l.next < l.occ.size() && l.occ[l.next] < t) l.next++; l.running = 0; if (l.next >= l.occ.size() && !l.more) l.cancelled = true; }
			pid_uid.clear();
			break; }
		case Ev::DUMP: {
			// queued set == model: tasks with occurrences left, or with children still running
			std::set<std::string> have; for (auto &r : e.rows) have.insert(r.uid);
			for (auto &kv : live) { const Live &l = kv.second; bool expect = !l.cancelled && (l.next < l.occ.size() || l.more);   // with running children and nothing left to run either is fine
				if (expect && !have.count(kv.first)) return Verdict::fail("task " + kv.first + " still has occurrences but is no longer in the daemon's table");
				if (!expect && have.count(kv.first) && (l.cancelled || l.running == 0)) return Verdict::fail("task " + kv.first + (l.cancelled ? " was cancelled" : " has run its last occurrence and all its children have exited") + " but is still in the daemon's table"); }
			for (auto &u : have) if (!live.count(u)) return Verdict::fail("unknown task " + u + " in the daemon's table");
			break; }
		default: break;
		}
	}
	(void)now;
	Verdict v; v.nontrivial = nspawn >= 1 && (late_multi || change_between || exit_between);
	if (late_multi) v.classes.push_back("late-wakeup-collapses>=2"); if (change_between) v.classes.push_back("replace/cancel-between-arm-and-fire"); if (exit_between) v.classes.push_back("exit-before-late-wakeup"); if (restarts) v.classes.push_back("restart");
	v.classes.push_back(nspawn == 0 ? "spawns/0" : nspawn < 10 ? "spawns/1-9" : "spawns/10+");
	if (classes_out) *classes_out = v.classes;
	return v;
}

Verdict prop_replay(Ctx &c, const std::string &t) { g_trace = c.getoptl("trace", 0) != 0; return judge_script(t); }

void prop_gen(Ctx &c) {
	bool survey = c.getoptl("survey", 0) != 0;
	int maxops = (int)c.getoptl("maxops", 60);
	std::string params = "seed=" + std::to_string(c.seed) + " max_success=" + std::to_string(c.cases) + " max_size=" + std::to_string(c.size) + " max_discard_ratio=20";
	setenv("RC_PARAMS", params.c_str(), 1);
	using rgen::R;
	auto genOp = rc::gen::tuple(R(0, 100), R(0, 4), R(0, 12), R(-400, 600), R(1, 60), R(1, 12), R(0, 8), R(0, 2000), rc::gen::container<std::vector<int>>(4, R(-300, 900)), R(0, 5));
	auto genHist = rc::gen::container<std::vector<std::tuple<int, int, int, int, int, int, int, int, std::vector<int>, int>>>((size_t)maxops, genOp);
	rc::check("C04", [&]() {
		if (c.shrink_exhausted()) return;
		auto h = *genHist; size_t nops = 4 + (size_t)*R(0, maxops - 3);
		std::string script = "USERS 1000 1001\n";
		// the clock starts on new year's day 2020 or shortly before a date the calendar arithmetic has to get right (end of February in leap and common years, a year's end, a century year is out of the daemon's reach)
		static const double BASES[] = {1577872800.0, 1582934100.0 /*2020-02-28T23:55*/, 1709164800.0 /*2024-02-29T00:00*/, 1614556500.0 /*2021-02-28T23:55*/, 1609458900.0 /*2020-12-31T23:55*/, 1583020500.0 /*2020-02-29T23:55*/};
		int bsel = *R(0, 12); double base = bsel < 6 ? BASES[bsel] : BASES[0];
		if (base != BASES[0]) { char nb[64]; snprintf(nb, sizeof nb, "NOW %.3f\n", base); script += nb; }
		double now = base; int nuids = 0; bool with_restart = *R(0, 3) == 0;   // such histories avoid RDATE events: the queue file does not keep them (C05's open finding rt_rdate)
		static const char *F[] = {"SECONDLY", "MINUTELY", "HOURLY", "DAILY"}; static const int UNIT[] = {1, 60, 3600, 86400};
		for (size_t i = 0; i < nops && i < h.size(); i++) {
			auto &o = h[i]; int sel = std::get<0>(o);
			if (sel < 35) {          // add or replace
				std::string uid = "job" + std::to_string(std::get<1>(o));
				int shape = std::get<2>(o); if (with_restart && shape >= 5 && shape < 9) shape -= 5; int64_t start = (int64_t)now + std::get<3>(o);
				std::vector<std::string> lines;
				if (shape < 5) { int f = shape % 4; int iv = std::get<4>(o); if (f >= 2) iv = 1 + iv % 3; int cnt = std::get<5>(o);
					// keep the model window small: finite rules; DTSTART possibly long before now
					if (shape == 4) { start = civil::to_ms(1999, 1, 1, 10) / 1000 + std::get<3>(o); f = 3; iv = 1; lines.push_back("RRULE:FREQ=DAILY;UNTIL=20200105T000000Z"); }
					else lines.push_back(std::string("RRULE:FREQ=") + F[f] + ";INTERVAL=" + std::to_string(f == 0 ? iv * 3 : iv) + ";COUNT=" + std::to_string(cnt)); (void)UNIT; }
				else if (shape < 9) { std::string s = "RDATE:"; auto &r = std::get<8>(o); for (size_t k = 0; k < r.size(); k++) { if (k) s += ","; s += civil::fmt_ical(((int64_t)now + r[k]) * 1000, false); } if (shape == 8) s += "," + civil::fmt_ical(((int64_t)now + r[0]) * 1000, false); lines.push_back(s); }
				else if (shape < 11) { start = (int64_t)now - 5000 - std::get<7>(o); lines.push_back("RRULE:FREQ=MINUTELY;COUNT=5"); }   // entirely in the past
				else { /* single occurrence at DTSTART */ }
				unsigned peer = 1000 + (unsigned)(std::get<6>(o) == 0);
				if (shape == 11 && std::get<4>(o) % 3 == 0) {
					// an all-day event: its occurrences are due at midnight UTC (the daemon computes those wake-up times on a branch of its own)
					int64_t day = ((int64_t)now / 86400 + 1 + std::get<5>(o) % 2) * 86400;
					std::string b = "BEGIN:VCALENDAR\nVERSION:2.0\nBEGIN:VEVENT\nUID:" + uid + "\nSUMMARY:job " + uid + "\nDTSTART;VALUE=DATE:" + civil::fmt_ical(day * 1000, true) + "\nRRULE:FREQ=DAILY;COUNT=2\nEND:VEVENT\nEND:VCALENDAR\n";
					script += submit_op(peer, b); nuids++; continue; }
				script += submit_op(peer, event_ics(uid, start, lines)); nuids++;
			} else if (sel < 45) { script += submit_op(1000, event_ics("job" + std::to_string(std::get<1>(o)), (int64_t)now, {}, true)); }
			else if (sel < 80) { double dt = std::get<7>(o) % 7 == 0 ? std::get<7>(o) : std::get<4>(o) * (1 + std::get<7>(o) % 9); if (std::get<7>(o) % 40 == 1) dt = 30000 + std::get<7>(o) * 30; /* now and then most of a day passes */ int lc = std::get<9>(o); double late = lc == 0 ? 0.001 : lc == 1 ? 0.4 : lc == 2 ? 1.0 : lc == 3 ? 7.5 : 130.0; now += dt; char b[96]; snprintf(b, sizeof b, "ADV %.3f %.3f\n", now, late); script += b; now += late; }
			else if (sel < 86) script += "EXITALL\n";
			else if (sel < 94) script += "EXITN " + std::to_string(std::get<7>(o)) + "\n";
			else if (sel < 97 && with_restart) script += "RESTART\n";
			else script += "DUMP\n";
		}
		{ char b[96]; now += 40; snprintf(b, sizeof b, "ADV %.3f 0.001\nEXITALL\nDUMP\n", now); script += b; }
		std::vector<std::string> cls;
		Verdict v = judge_script(script, &cls);
		c.st.record(script, v);
		if (v.k == Verdict::FAIL && survey) { c.st.survey_add(v.msg.substr(v.msg.find(':') == std::string::npos ? 0 : v.msg.find(':'), 70), script.substr(0, 30000) + " :: " + v.msg); return; }
		if (v.k == Verdict::FAIL) { c.note_fail(script, v.msg); RC_FAIL(v.msg); }
	});
}
