// C06  Queue survives restart and crash: checkpoint file is never torn.
// Generated histories of accepted add / replace / cancel commands of several users with checkpoints
// (60 s timer, GET /queue, shutdown) x fault injection at every system-call boundary of every checkpoint
// (process death, or a single failing call) x an actual reload of the spool in a fresh process.
#include "daemon.hpp"
#include "rulegen.hpp"

using namespace vh;
using namespace dm;

static bool g_trace = false; static int g_kinds = 3; static int g_only_kind = -1;   // while shrinking: only the kind of fault that failed
typedef std::map<std::string, unsigned> State;      // UID -> owner
typedef std::map<unsigned, std::set<std::string>> PerUser;

static std::string ev_text(const std::string &uid, int ver, int flavour) {
	char dt[40]; snprintf(dt, sizeof dt, "20%02d%02d%02dT%02d0000Z", 30 + ver % 50, 1 + ver % 12, 1 + ver % 28, ver % 24);
	std::string b = "BEGIN:VEVENT\nUID:" + uid + "\nSUMMARY:echo v" + std::to_string(ver) + "\nDTSTART:" + dt + "\nRRULE:FREQ=YEARLY\n";
	if (flavour == 1) b += "X-ECHS-MAX-SIMUL:2\n"; if (flavour == 2) b += "DESCRIPTION:" + std::string(300 + (size_t)ver * 37 % 3000, 'd') + "\n"; if (flavour == 3) b += "X-ECHS-MAIL-OUT:1\nATTENDEE:mailto:ops@example.org\n";
	return b + "END:VEVENT\n";
}

static std::string show(const std::set<std::string> &s) { std::string o = "{"; for (auto &x : s) { if (o.size() > 1) o += ","; o += x; } return o + "}"; }

struct Run { Verdict v; int nsys = 0; bool crashed = false, faulted = false, shut = false; std::vector<std::string> classes; };

// one session (optionally with a fault) + inspection of the spool + reload in a fresh process
static Run run_once(const std::string &script, int fault_k, int fault_kind) {
	Run R; std::string spool = make_spool(); if (spool.empty()) { R.v = Verdict::inconclusive("no spool"); return R; }
	std::string sc = fault_k > 0 ? "FAULT " + std::to_string(fault_k) + " " + std::to_string(fault_kind) + "\n" + script : script;
	Trace tr = run_session(spool, sc, 30.0);
	if (g_trace) fprintf(stderr, "%s\n[%s]\n", tr.raw.c_str(), tr.sbx.describe().c_str());
	auto done = [&](Verdict v) { rm_rf(spool); R.v = v; return R; };
	bool died = tr.sbx.st == SbxResult::CRASH && tr.sbx.sig == 0 && tr.sbx.code == 137;
	if (tr.sbx.st == SbxResult::TIMEOUT) return done(Verdict::fail("the daemon did not finish the history within 30 CPU seconds"));
	if (!tr.sbx.ok() && !died) return done(Verdict::fail(tr.sbx.describe()));
	// ---- follow the trace: state acknowledged to clients, and the states each user's file may legitimately hold
	std::vector<std::pair<unsigned, std::string>> reqs;   // peer, body
	{ size_t p = 0; while (p < script.size()) { size_t e = script.find('\n', p); if (e == std::string::npos) e = script.size(); std::string ln = script.substr(p, e - p); p = e + 1;
		if (ln.compare(0, 7, "SUBMIT ") == 0) { unsigned peer; size_t ch, n; sscanf(ln.c_str() + 7, "%u %zu %zu", &peer, &ch, &n); reqs.push_back({peer, script.substr(p, n)}); p += n + 1; } } }
	State S; std::map<unsigned, std::vector<std::set<std::string>>> acceptable; std::set<unsigned> users = {0};   // root queues tasks of his own, too; the others are named by the script's USERS line
	{ size_t up = script.find("USERS "); if (up != std::string::npos) { size_t ue = script.find('\n', up); std::stringstream us(script.substr(up + 6, ue - up - 6)); unsigned u; while (us >> u) users.insert(u); } }
	for (unsigned u : users) acceptable[u] = {std::set<std::string>()};
	auto of = [&](unsigned u) { std::set<std::string> s; for (auto &kv : S) if (kv.second == u) s.insert(kv.first); return s; };
	size_t ri = 0; const std::pair<unsigned, std::string> *cur = nullptr;
	bool in_chk = false, chk_fault = false; int chk_sys = 0;
	auto chk_end = [&]() { if (in_chk && chk_sys > 0 && !chk_fault) for (unsigned u : users) acceptable[u] = {of(u)}; in_chk = false; chk_fault = false; chk_sys = 0; };
	for (const Ev &e : tr.ev) {
		if (e.k == Ev::SUBMIT) { chk_end(); if (ri >= reqs.size()) return done(Verdict::inconclusive("trace/script mismatch")); cur = &reqs[ri++]; in_chk = true; continue; }   // GET /queue checkpoints inside the request
		if (e.k == Ev::SYSCALL) { R.nsys = std::max(R.nsys, e.n); chk_sys++; in_chk = true; continue; }
		if (e.k == Ev::FAULT) { chk_fault = true; R.faulted = true; continue; }
		if (e.k == Ev::CRASH) { chk_fault = true; R.crashed = true; continue; }
		if (e.raw.compare(0, 14, "RENAMED echsq_") == 0) { unsigned u = (unsigned)atol(e.raw.c_str() + 14); acceptable[u].push_back(of(u)); continue; }
		if (e.k == Ev::REPLY && cur) {
			const std::string &b = cur->second; unsigned peer = cur->first;
			if (b.compare(0, 4, "GET ") != 0) {
				bool cancel = b.find("\nMETHOD:CANCEL") != std::string::npos; size_t k = 0, p = 0;
				while ((p = b.find("\nUID:", p)) != std::string::npos) { size_t ue = b.find('\n', p + 1); std::string uid = b.substr(p + 5, ue - p - 5); p = ue;
					bool ok = k < e.rp.status.size() && e.rp.status[k].second[0] == '2'; k++;
					if (ok) { if (cancel) S.erase(uid); else S[uid] = peer; } }
			}
			chk_end(); cur = nullptr; continue;
		}
		if (e.k == Ev::CHK) { in_chk = true; chk_end(); continue; }
		if (e.k == Ev::SHUT) { in_chk = true; bool clean = !chk_fault; chk_end(); R.shut = clean; continue; }
	}
	// ---- the spool as the crash (or the end of the session) left it
	auto files = read_spool(spool);
	for (auto &kv : files) {
		if (kv.first.compare(0, 6, "echsq_") != 0) continue;
		const std::string &t = kv.second; std::string why;
		auto count = [&](const char *k) { size_t n = 0, p = 0; std::string key = k; while ((p = t.find(key, p)) != std::string::npos) { n++; p += key.size(); } return n; };
		if (t.compare(0, 15, "BEGIN:VCALENDAR") != 0) why = "does not start with BEGIN:VCALENDAR";
		else if (t.size() < 14 || t.compare(t.size() - 14, 14, "END:VCALENDAR\n") != 0) why = "does not end with END:VCALENDAR";
		else if (count("BEGIN:VEVENT") != count("END:VEVENT")) why = "has an unterminated VEVENT";
		if (!why.empty()) return done(Verdict::fail("queue file " + kv.first + " (" + std::to_string(t.size()) + " bytes) is torn: " + why + (R.crashed ? " after a crash" : R.faulted ? " after a failed system call" : "")));
	}
	// ---- restart: a fresh process reloads the spool
	std::string ul = "USERS"; for (unsigned u : users) if (u) ul += " " + std::to_string(u);
	Trace t2 = run_session(spool, ul + "\nRELOAD\nDUMP\n", 30.0);
	if (g_trace) fprintf(stderr, "--- reload\n%s\n[%s]\n", t2.raw.c_str(), t2.sbx.describe().c_str());
	if (!t2.sbx.ok()) return done(Verdict::fail("restart on the spool left behind: " + t2.sbx.describe()));
	PerUser got; bool dumped = false;
	for (const Ev &e : t2.ev) if (e.k == Ev::DUMP) { dumped = true; for (auto &r : e.rows) got[(unsigned)r.owner].insert(r.uid); }
	if (!dumped) return done(Verdict::inconclusive("no dump after reload"));
	for (auto &kv : got) if (!users.count(kv.first)) return done(Verdict::fail("after the restart tasks " + show(kv.second) + " are owned by user " + std::to_string(kv.first) + " who never submitted anything"));
	for (unsigned u : users) {
		const auto &g = got[u]; bool ok = false; for (auto &a : acceptable[u]) if (a == g) ok = true;
		if (R.shut) { if (g != of(u)) return done(Verdict::fail("after a clean shutdown and restart user " + std::to_string(u) + " has " + show(g) + ", acknowledged were " + show(of(u)))); continue; }
		if (!ok) { std::string acc; for (auto &a : acceptable[u]) acc += (acc.empty() ? "" : " or ") + show(a);
			return done(Verdict::fail("after " + std::string(R.crashed ? "the crash" : R.faulted ? "the failed system call" : "the session") + " and a restart user " + std::to_string(u) + " has " + show(g) + "; the last completed checkpoint held " + acc)); }
	}
	return done(Verdict());
}

static Verdict judge_case(const std::string &text, std::vector<std::string> *cls = nullptr, size_t *nruns = nullptr) {
	// case = optional first line "FAULTPLAN k kind" (one run) or "FAULTPLAN all" (every boundary x {crash, ENOSPC, EIO}), then the script
	std::string script = text; int k = 0, kind = 0; bool all = false;
	if (text.compare(0, 10, "FAULTPLAN ") == 0) { size_t e = text.find('\n'); std::string a = text.substr(10, e - 10); script = text.substr(e + 1); if (a == "all") all = true; else sscanf(a.c_str(), "%d %d", &k, &kind); }
	Run base = run_once(script, 0, 0); if (nruns) *nruns = 1;
	if (base.v.k != Verdict::PASS) return base.v;
	Verdict v; v.nontrivial = base.nsys >= 8;
	if (cls) { cls->push_back(base.nsys == 0 ? "chk-syscalls/0" : base.nsys < 20 ? "chk-syscalls/1-19" : base.nsys < 80 ? "chk-syscalls/20-79" : "chk-syscalls/80+"); if (base.shut) cls->push_back("clean-shutdown"); }
	if (!all && k > 0) { Run r = run_once(script, k, kind); if (nruns) ++*nruns; if (r.v.k != Verdict::PASS) { r.v.msg = "[fault " + std::to_string(k) + " kind " + std::to_string(kind) + "] " + r.v.msg; return r.v; } }
	if (all) for (int i = 1; i <= base.nsys; i++) for (int kd = 0; kd < g_kinds; kd++) { if (g_only_kind >= 0 && kd != g_only_kind) continue; Run r = run_once(script, i, kd); if (nruns) ++*nruns; if (r.v.k == Verdict::FAIL) { r.v.msg = "[fault " + std::to_string(i) + " kind " + std::to_string(kd) + "] " + r.v.msg; return r.v; } }
	v.classes = cls ? *cls : std::vector<std::string>();
	return v;
}

Verdict prop_replay(Ctx &c, const std::string &t) { g_trace = c.getoptl("trace", 0) != 0; return judge_case(t); }

void prop_gen(Ctx &c) {
	bool survey = c.getoptl("survey", 0) != 0;
	int maxops = (int)c.getoptl("maxops", 30); g_kinds = (int)c.getoptl("kinds", 3);
	c.shrink_budget = 15;   // every shrink attempt re-runs the whole fault enumeration of its history
	std::string params = "seed=" + std::to_string(c.seed) + " max_success=" + std::to_string(c.cases) + " max_size=" + std::to_string(c.size) + " max_discard_ratio=20";
	setenv("RC_PARAMS", params.c_str(), 1);
	using rgen::R;
	auto genOp = rc::gen::tuple(R(0, 100), R(0, 3), R(0, 8), R(0, 4), R(1, 4));
	rc::check("C06", [&]() {
		if (c.shrink_exhausted()) return;
		auto ops = *rc::gen::container<std::vector<std::tuple<int, int, int, int, int>>>((size_t)maxops, genOp);
		size_t nops = 3 + (size_t)*R(0, maxops - 3); bool final_shut = *R(0, 2) == 0; bool many_users_dirty = *R(0, 5) == 0;
		std::string script = "USERS 1000 1001 1002"; if (many_users_dirty) for (unsigned u = 1003; u < 1023; u++) script += " " + std::to_string(u); script += "\n"; int ver = 0;
		for (size_t i = 0; i < nops && i < ops.size(); i++) {
			auto &o = ops[i]; int sel = std::get<0>(o); unsigned peer = std::get<1>(o) == 2 && std::get<2>(o) < 3 ? 0 : 1000 + (unsigned)std::get<1>(o);
			// every user has its own UIDs (cross-user attempts are C11's subject)
			auto uid = [&](int k) { return "u" + std::to_string(peer) + "-job" + std::to_string((std::get<2>(o) + k) % 8); };
			if (sel < 50) { std::string b = "BEGIN:VCALENDAR\nVERSION:2.0\n"; int n = sel < 40 ? 1 : std::get<4>(o); for (int k = 0; k < n; k++) b += ev_text(uid(k), ++ver, std::get<3>(o));
				if (sel % 7 == 3) b += "BEGIN:VEVENT\nUID:" + uid(7) + "-nostart\nSUMMARY:echo incomplete\nEND:VEVENT\n";   // the request ends with an instruction that is refused (no DTSTART): what was acknowledged before it still counts
				b += "END:VCALENDAR\n"; script += submit_op(peer, b);
				if (many_users_dirty && i % 4 == 0) for (unsigned u = 1003; u < 1003 + 17 + (unsigned)i % 4; u++) script += submit_op(u, "BEGIN:VCALENDAR\nVERSION:2.0\n" + ev_text("u" + std::to_string(u) + "-job" + std::to_string(i % 3), ++ver, 0) + "END:VCALENDAR\n"); }   // more than 16 users with changes since the last checkpoint: the dump-everybody path
			else if (sel < 70) { script += submit_op(peer, "BEGIN:VCALENDAR\nVERSION:2.0\nMETHOD:CANCEL\n" + ev_text(uid(0), 0, 0) + "END:VCALENDAR\n"); }
			else if (sel < 88) script += "CHK\n";
			else script += submit_op(peer, "GET /queue HTTP/1.1\r\n\r\n");
		}
		script += final_shut ? "SHUT\n" : "CHK\n";
		std::string text = "FAULTPLAN all\n" + script;
		std::vector<std::string> cls; size_t nruns = 0;
		Verdict v = judge_case(text, &cls, &nruns);
		c.st.extra["fault_runs"] += (int64_t)nruns;
		// the replay of a failure is the single failing fault point
		std::string rep = text; if (v.k == Verdict::FAIL && v.msg.compare(0, 7, "[fault ") == 0) { int k = 0, kd = 0; sscanf(v.msg.c_str(), "[fault %d kind %d]", &k, &kd); rep = "FAULTPLAN " + std::to_string(k) + " " + std::to_string(kd) + "\n" + script; g_only_kind = kd; } else if (v.k == Verdict::FAIL) rep = script;
		c.st.record(rep, v);
		if (v.k == Verdict::FAIL && survey) { std::string m = v.msg; size_t b = m.find("] "); if (b != std::string::npos) m = m.substr(b + 2); c.st.survey_add(m.substr(0, 60), rep.substr(0, 40000) + " :: " + v.msg); return; }
		if (v.k == Verdict::FAIL) { c.note_fail(rep, v.msg); RC_FAIL(v.msg); }
	});
}
