// C15  Hijri <-> Gregorian scale conversion is a consistent bijection.
// Exhaustive: 10 Hijri scales x every Gregorian day 1901..2099 (forward sweep)
// and every Hijri date of the years touching that range (reverse sweep).
#include "harness.hpp"
#include "civil.hpp"
#include "sut.h"

using namespace vh;

static const int64_t LO = civil::days_from_civil(1901, 1, 1), HI = civil::days_from_civil(2099, 12, 31);
static sut_inst_t mk(int y, int m, int d) { return sut_inst_t{y, m, d, SUT_ALL_DAY, 0, 0, 0}; }
static std::string dtxt(const sut_inst_t &i) { char b[48]; snprintf(b, sizeof b, "%04d-%02d-%02d", i.y, i.m, i.d); return b; }
static bool nul(const sut_inst_t &i) { return i.y == 0 && i.m == 0 && i.d == 0; }

// forward: Gregorian day -> scale s.   "" ok;  sets accepted
static std::string judge_fwd(int s, int64_t day, bool &accepted) {
	civil::YMD g = civil::civil_from_days(day);
	sut_inst_t gi = mk(g.y, (int)g.m, (int)g.d);
	sut_inst_t h = sut_rescale(gi, 0, s);
	accepted = !nul(h);
	std::string pre = std::string(sut_scale_name(s)) + " image of " + dtxt(gi) + " is " + dtxt(h);
	if (h.y < 0) return pre + ": result does not carry the target scale";
	if (!accepted) return "";
	int nd = sut_scale_ndim(s, h.y, h.m);
	if (h.m < 1 || h.m > 12 || h.d < 1 || nd < 1 || h.d > nd) return pre + " which is no date of that calendar (month length " + std::to_string(nd) + "): not rejected, mapped to a wrong day";
	if (h.H != SUT_ALL_DAY) return pre + ": time part altered";
	sut_inst_t back = sut_rescale(h, s, 0);
	if (back.y != gi.y || back.m != gi.m || back.d != gi.d) return pre + " but converts back to " + dtxt(back);
	// an instant that also carries a time zone converts to the same date (both directions), keeping the zone
	if (day % 5 == 0) { static const char *ZN[] = {"Europe/Berlin", "Asia/Tokyo", "America/New_York"}; const char *zn = ZN[(size_t)(((day / 5) % 3 + 3) % 3)];
		sut_inst_t hz = sut_rescale_zoned(gi, 0, s, zn);
		if (hz.y == -2) return pre + ": the time zone " + zn + " attached to the instant was lost by the conversion";
		if (hz.y != h.y || hz.m != h.m || hz.d != h.d) return pre + " but the same day carrying TZID=" + zn + " maps to " + dtxt(hz);
		sut_inst_t bz = sut_rescale_zoned(h, s, 0, zn);
		if (bz.y != gi.y || bz.m != gi.m || bz.d != gi.d) return pre + " but with TZID=" + std::string(zn) + " it converts back to " + dtxt(bz); }
	int wd = sut_scale_wday(s, h);
	if (wd != (int)civil::weekday(day)) return pre + ": weekday reported " + std::to_string(wd) + ", Gregorian weekday is " + std::to_string(civil::weekday(day));
	// successor
	if (day + 1 <= HI + 400) {
		civil::YMD g2 = civil::civil_from_days(day + 1);
		sut_inst_t h2 = sut_rescale(mk(g2.y, (int)g2.m, (int)g2.d), 0, s);
		if (!nul(h2)) {
			sut_inst_t want = h;
			if (h.d < nd) want.d++; else { want.d = 1; if (h.m < 12) want.m++; else { want.m = 1; want.y++; } }
			if (h2.y != want.y || h2.m != want.m || h2.d != want.d) return pre + " (month length " + std::to_string(nd) + ") but the next day maps to " + dtxt(h2) + ", expected successor " + dtxt(want);
		}
	}
	return "";
}

// reverse: Hijri (y,m) of scale s: all its days
static std::string judge_rev(int s, int y, int m, uint64_t &ev, uint64_t &acc) {
	int nd = sut_scale_ndim(s, y, m);
	std::string nm = sut_scale_name(s);
	if (nd == 0) {
		// outside a table's coverage: must be rejected
		for (int d : {1, 15, 29}) {
			ev++;
			sut_inst_t g = sut_rescale(mk(y, m, d), s, 0);
			if (!nul(g)) return nm + " " + dtxt(mk(y, m, d)) + " lies outside the table (month length 0) but converts to " + dtxt(g) + " instead of being rejected";
		}
		return "";
	}
	// NB: a month length other than 29/30 is not excluded by the statement (the Umm al-Qura table has a 28-day 1364-08); only consistency is judged
	if (nd < 1 || nd > 31) return nm + " month " + std::to_string(y) + "-" + std::to_string(m) + " has length " + std::to_string(nd);
	int64_t first = 0;
	for (int d = 1; d <= nd; d++) {
		ev++;
		sut_inst_t g = sut_rescale(mk(y, m, d), s, 0);
		if (nul(g)) return nm + " " + dtxt(mk(y, m, d)) + " is a date of a month of length " + std::to_string(nd) + " but is rejected";
		acc++;
		if (g.m < 1 || g.m > 12 || g.d < 1 || g.d > (int)civil::days_in_month(g.y, g.m)) return nm + " " + dtxt(mk(y, m, d)) + " maps to non-date " + dtxt(g);
		int64_t gd = civil::days_from_civil(g.y, g.m, g.d);
		if (d == 1) first = gd; else if (gd != first + d - 1) return nm + " " + dtxt(mk(y, m, d)) + " maps to " + dtxt(g) + ", not " + std::to_string(d - 1) + " days after the image of the 1st";
		if (gd >= LO && gd <= HI) {
			sut_inst_t h = sut_rescale(g, 0, s);
			if (h.y != y || h.m != m || h.d != d) return nm + " " + dtxt(mk(y, m, d)) + " -> " + dtxt(g) + " -> " + dtxt(h) + " (not the identity)";
		}
		int wd = sut_scale_wday(s, mk(y, m, d));
		if (wd != (int)civil::weekday(gd)) return nm + " " + dtxt(mk(y, m, d)) + ": weekday " + std::to_string(wd) + " but Gregorian image " + dtxt(g) + " has " + std::to_string(civil::weekday(gd));
	}
	// month length == distance between first days of adjacent months
	int y2 = m < 12 ? y : y + 1, m2 = m < 12 ? m + 1 : 1;
	if (sut_scale_ndim(s, y2, m2) != 0) {
		ev++;
		sut_inst_t g2 = sut_rescale(mk(y2, m2, 1), s, 0);
		if (nul(g2)) return nm + " first of " + std::to_string(y2) + "-" + std::to_string(m2) + " rejected although the month has a length";
		int64_t dist = civil::days_from_civil(g2.y, g2.m, g2.d) - first;
		if (dist != nd) return nm + " month " + std::to_string(y) + "-" + std::to_string(m) + ": reported length " + std::to_string(nd) + " but first days of adjacent months are " + std::to_string(dist) + " days apart";
	}
	return "";
}

// case text: "fwd scale=<n> day=<days since 1970>"  or "rev scale=<n> y=<y> m=<m>"
Verdict prop_replay(Ctx &, const std::string &t) {
	int s = 0, y = 0, m = 0; long long day = 0;
	std::string res;
	bool fwd = sscanf(t.c_str(), "fwd scale=%d day=%lld", &s, &day) == 2;
	bool rev = !fwd && sscanf(t.c_str(), "rev scale=%d y=%d m=%d", &s, &y, &m) == 3;
	if (!fwd && !rev) return Verdict::inconclusive("unparseable case");
	SbxResult r = sandbox([&](Out &o) { bool a; uint64_t e = 0, ac = 0; o.put(fwd ? judge_fwd(s, day, a) : judge_rev(s, y, m, e, ac)); }, 10.0);
	if (!r.ok()) return Verdict::fail(r.describe());
	return r.out.empty() ? Verdict::pass() : Verdict::fail(r.out);
}

void prop_gen(Ctx &c) {
	bool all_done = true;
	int ns = sut_scale_count();
	int unit = 0;
	for (int s = 1; s < ns && !c.fail.have; s++) {
		// forward sweep in 10-year chunks, reverse sweep in 10-year chunks
		for (int pass = 0; pass < 2 && !c.fail.have; pass++) {
			int y0 = pass == 0 ? 1901 : 1317, y1 = pass == 0 ? 2099 : 1528;
			for (int yy = y0; yy <= y1 && !c.fail.have; yy += 10) {
				if (unit++ % c.nworkers != c.worker) continue;
				SbxResult r = sandbox([&](Out &o) {
					uint64_t ev = 0, acc = 0; std::string fc, fm, smp;
					if (pass == 0) {
						int64_t d0 = civil::days_from_civil(yy, 1, 1), d1 = std::min(HI, civil::days_from_civil(yy + 9, 12, 31));
						for (int64_t d = d0; d <= d1 && fc.empty(); d++) {
							bool a = false; ev++;
							std::string m = judge_fwd(s, d, a);
							if (a) acc++;
							if (!m.empty()) { fc = "fwd scale=" + std::to_string(s) + " day=" + std::to_string(d); fm = m; }
							if (a && smp.empty() && ev % 1777 == 3) { civil::YMD g = civil::civil_from_days(d); sut_inst_t h = sut_rescale(mk(g.y, g.m, g.d), 0, s); smp = std::string(sut_scale_name(s)) + ": " + dtxt(mk(g.y, g.m, g.d)) + " <-> " + dtxt(h); }
						}
					} else {
						for (int y = yy; y < yy + 10 && y <= y1 && fc.empty(); y++) for (int m = 1; m <= 12 && fc.empty(); m++) {
							std::string msg = judge_rev(s, y, m, ev, acc);
							if (!msg.empty()) { fc = "rev scale=" + std::to_string(s) + " y=" + std::to_string(y) + " m=" + std::to_string(m); fm = msg; }
						}
					}
					o.printf("%llu %llu\n", (unsigned long long)ev, (unsigned long long)acc);
					o.put(fc + "\n" + fm + "\n" + smp + "\n");
				}, 120.0);
				if (!r.ok() && pass == 0) {
					// the chunk died: find the day by running each one in its own sandbox
					int64_t d0 = civil::days_from_civil(yy, 1, 1), d1 = std::min(HI, civil::days_from_civil(yy + 9, 12, 31));
					for (int64_t d = d0; d <= d1; d++) {
						SbxResult r1 = sandbox([&](Out &o) { bool a; o.put(judge_fwd(s, d, a)); }, 10.0);
						if (!r1.ok() || !r1.out.empty()) { all_done = false; c.st.failures++; c.note_fail("fwd scale=" + std::to_string(s) + " day=" + std::to_string(d), r1.ok() ? r1.out : r1.describe()); break; }
					}
					if (c.fail.have) break;
				}
				if (!r.ok() && pass == 1) {
					for (int y = yy; y < yy + 10 && y <= y1 && !c.fail.have; y++) for (int m = 1; m <= 12; m++) {
						SbxResult r1 = sandbox([&](Out &o) { uint64_t e = 0, a = 0; o.put(judge_rev(s, y, m, e, a)); }, 10.0);
						if (!r1.ok() || !r1.out.empty()) { all_done = false; c.st.failures++; c.note_fail("rev scale=" + std::to_string(s) + " y=" + std::to_string(y) + " m=" + std::to_string(m), r1.ok() ? r1.out : r1.describe()); break; }
					}
					if (c.fail.have) break;
				}
				if (!r.ok()) { all_done = false; c.st.failures++; c.note_fail(std::string(pass ? "rev" : "fwd") + " scale=" + std::to_string(s) + (pass ? " y=" + std::to_string(yy) + " m=1" : " day=" + std::to_string(civil::days_from_civil(yy, 1, 1))), "chunk: " + r.describe()); break; }
				std::stringstream ss(r.out); std::string line, fc, fm;
				std::getline(ss, line); unsigned long long e = 0, a = 0; sscanf(line.c_str(), "%llu %llu", &e, &a);
				c.st.evaluations += e; c.nt_bulk += a;
				c.st.classes[std::string(sut_scale_name(s)) + (pass ? "/reverse" : "/forward")] += e;
				c.st.classes[std::string(sut_scale_name(s)) + (pass ? "/reverse-accepted" : "/forward-accepted")] += a;
				std::getline(ss, fc); std::getline(ss, fm);
				if (std::getline(ss, line) && !line.empty() && c.st.samples.size() < 3) c.st.samples.push_back(line);
				if (!fc.empty()) { all_done = false; c.st.failures++; c.note_fail(fc, fm); }
			}
		}
	}
	c.st.exhaustive = all_done;
}
