// C11  Queue is a per-user map by UID; users cannot touch others' tasks.
// Model-based: generated histories of add / replace / cancel / list requests from several peers over a pool of
// UID strings (plain, long, odd characters, groups whose 32-bit table keys share 4..18 low bits) against a
// std::map<uid, (owner, version)>; the daemon's table is dumped after every request.
#include "daemon.hpp"
#include "rulegen.hpp"
#include <unordered_map>

using namespace vh;
using namespace dm;

static const double T0 = 1577872800.0;
static bool g_trace = false;

struct Ins { std::string uid; int ver = 0; };
struct Req { unsigned peer = 0; enum K { ADD, CANCEL, SCHED, QUEUE, OTHER } k = OTHER; std::vector<Ins> ins; long asuid = -1; std::string tuid; };

static std::string ev_text(const std::string &uid, int ver, bool near) {
	char dt[40]; if (near) snprintf(dt, sizeof dt, "20200101T10%02d%02dZ", 1 + ver % 50, ver % 60); else snprintf(dt, sizeof dt, "20%02d%02d%02dT000000Z", 30 + ver % 50, 1 + ver % 12, 1 + ver % 28);
	// tasks never run out of occurrences: the map is not to lose entries to retirement (that is C04's subject)
	return "BEGIN:VEVENT\nUID:" + uid + "\nSUMMARY:v" + std::to_string(ver) + "\nDTSTART:" + dt + "\n" + (near ? "RRULE:FREQ=MINUTELY;INTERVAL=7\n" : "RRULE:FREQ=YEARLY\n") + "END:VEVENT\n";
}

static Req parse_req(unsigned peer, const std::string &body) {
	Req r; r.peer = peer;
	if (body.compare(0, 5, "GET /") == 0) {
		size_t p = 5; if (body.compare(p, 2, "u/") == 0) { r.asuid = atol(body.c_str() + p + 2); p = body.find('/', p + 2) + 1; }
		r.k = body.compare(p, 5, "sched") == 0 ? Req::SCHED : body.compare(p, 5, "queue") == 0 ? Req::QUEUE : Req::OTHER;
		size_t q = body.find("?tuid=", p); if (q != std::string::npos) r.tuid = body.substr(q + 6, body.find(' ', q) - q - 6);
		return r;
	}
	r.k = body.find("\nMETHOD:CANCEL") != std::string::npos ? Req::CANCEL : Req::ADD;
	size_t p = 0; while ((p = body.find("BEGIN:VEVENT", p)) != std::string::npos) { size_t e = body.find("END:VEVENT", p); if (e == std::string::npos) break; Ins i; size_t u = body.find("\nUID:", p); if (u != std::string::npos && u < e) { size_t ue = body.find('\n', u + 1); i.uid = body.substr(u + 5, ue - u - 5); } size_t s = body.find("\nSUMMARY:v", p); if (s != std::string::npos && s < e) i.ver = atoi(body.c_str() + s + 10); r.ins.push_back(i); p = e; }
	return r;
}

struct MT { unsigned owner; int ver; };

static Verdict judge_script(const std::string &script) {
	std::vector<Req> reqs;
	{ size_t p = 0; while (p < script.size()) { size_t e = script.find('\n', p); if (e == std::string::npos) e = script.size(); std::string ln = script.substr(p, e - p); p = e + 1;
		if (ln.compare(0, 7, "SUBMIT ") == 0) { unsigned peer; size_t ch, n; sscanf(ln.c_str() + 7, "%u %zu %zu", &peer, &ch, &n); reqs.push_back(parse_req(peer, script.substr(p, n))); p += n + 1; } } }
	std::string spool = make_spool(); if (spool.empty()) return Verdict::inconclusive("no spool");
	Trace tr = run_session(spool, script, 30.0);
	rm_rf(spool);
	if (g_trace) fprintf(stderr, "%s\n[%s]\n", tr.raw.c_str(), tr.sbx.describe().c_str());
	if (tr.sbx.st == SbxResult::TIMEOUT) return Verdict::fail("the daemon did not finish the history within 30 CPU seconds");
	if (!tr.sbx.ok()) return Verdict::fail(tr.sbx.describe());
	std::map<std::string, MT> model; size_t ri = 0; const Req *cur = nullptr;
	bool cross_refused = false, replaced = false, cancelled = false, listed_nonempty = false, grew = false; size_t maxtab = 0;
	auto owned = [&](unsigned u) { std::set<std::string> s; for (auto &kv : model) if (kv.second.owner == u) s.insert(kv.first); return s; };
	auto show = [](const std::set<std::string> &s) { std::string o = "{"; for (auto &x : s) { if (o.size() > 1) o += ","; o += x.size() > 40 ? x.substr(0, 37) + "..." : x; } return o + "}"; };
	for (size_t i = 0; i < tr.ev.size(); i++) {
		const Ev &e = tr.ev[i];
		if (e.k == Ev::SUBMIT) { if (ri >= reqs.size()) return Verdict::inconclusive("trace/script mismatch"); cur = &reqs[ri++]; continue; }
		if (e.k == Ev::SPAWN) {   // runs-as: an execution runs under the uid of the task's owner in the model
			auto it = model.find(e.sp.uid); if (it == model.end()) return Verdict::fail("an execution is started for " + e.sp.uid + " which the map does not hold");
			if ((unsigned)e.sp.setuid != it->second.owner) return Verdict::fail("task " + e.sp.uid + " owned by " + std::to_string(it->second.owner) + " is run as user " + std::to_string(e.sp.setuid));
			continue; }
		if (e.k == Ev::REPLY && cur) {
			const Req &r = *cur; std::string who = "user " + std::to_string(r.peer);
			if (r.k == Req::ADD || r.k == Req::CANCEL) {
				if (e.rp.status.size() != r.ins.size()) return Verdict::fail(who + ": request with " + std::to_string(r.ins.size()) + " instruction(s) got " + std::to_string(e.rp.status.size()) + " status replies");
				for (size_t k = 0; k < r.ins.size(); k++) {
					const Ins &in = r.ins[k]; bool ok = e.rp.status[k].second[0] == '2';
					if (e.rp.status[k].first != in.uid) return Verdict::fail(who + ": the reply for " + in.uid + " names " + e.rp.status[k].first);
					auto it = model.find(in.uid);
					if (r.k == Req::ADD) {
						bool expect = it == model.end() || it->second.owner == r.peer;
						if (expect && !ok) return Verdict::fail(who + ": add of " + in.uid + (it == model.end() ? " (new)" : " (replace of own task)") + " was refused");
						if (!expect && ok) return Verdict::fail(who + ": add of " + in.uid + " was acknowledged although the task belongs to user " + std::to_string(it->second.owner));
						if (expect) { if (it != model.end()) replaced = true; model[in.uid] = MT{r.peer, in.ver}; } else cross_refused = true;
					} else {
						bool expect = it != model.end() && it->second.owner == r.peer;
						if (expect && !ok) return Verdict::fail(who + ": cancel of own task " + in.uid + " was refused");
						if (!expect && ok) return Verdict::fail(who + ": cancel of " + in.uid + " was acknowledged although " + (it == model.end() ? std::string("there is no such task") : "the task belongs to user " + std::to_string(it->second.owner)));
						if (expect) { model.erase(it); cancelled = true; } else if (it != model.end()) cross_refused = true;
					}
				}
			} else if (r.k == Req::SCHED || r.k == Req::QUEUE) {
				// the listing: UIDs shown
				std::set<std::string> shown; const std::string &b = e.rp.body; bool ok200 = b.compare(0, 12, "HTTP/1.1 200") == 0;
				size_t hd = b.find("\r\n\r\n"); std::string content = hd == std::string::npos ? "" : b.substr(hd + 4);
				if (r.k == Req::SCHED) { std::stringstream ss(content); std::string ln; while (std::getline(ss, ln)) { size_t t = ln.find('\t'); if (t != std::string::npos) shown.insert(ln.substr(0, t)); } }
				else { size_t p = 0; while ((p = content.find("\nUID:", p)) != std::string::npos) { size_t ue = content.find('\n', p + 1); shown.insert(content.substr(p + 5, ue - p - 5)); p = ue; } }
				std::set<std::string> mine = owned(r.peer);
				for (auto &u : shown) if (!mine.count(u)) { auto it = model.find(u); return Verdict::fail(who + ": the listing shows " + u + (it == model.end() ? " which is not queued" : " which belongs to user " + std::to_string(it->second.owner))); }
				bool own_view = r.asuid < 0 || (unsigned)r.asuid == r.peer;
				if (own_view && r.tuid.empty()) {
					if (!ok200 && !(r.k == Req::QUEUE && mine.empty())) return Verdict::fail(who + ": listing request answered " + b.substr(0, b.find('\r')));
					if (shown != mine && ok200) return Verdict::fail(who + ": the " + (r.k == Req::SCHED ? "schedule" : "queue") + " listing shows " + show(shown) + " but the user's tasks are " + show(mine));
					if (!mine.empty()) listed_nonempty = true;
				} else if (own_view && ok200) { bool has = mine.count(r.tuid) > 0; if (has != (shown.count(r.tuid) > 0)) return Verdict::fail(who + ": asked for task " + r.tuid + (has ? " (own) and did not get it" : " and got it")); }
			}
			cur = nullptr; continue;
		}
		if (e.k == Ev::DUMP) {
			std::map<std::string, int> have; for (auto &r : e.rows) have[r.uid] = r.owner;
			maxtab = std::max(maxtab, e.rows.size());
			for (auto &kv : model) { auto it = have.find(kv.first); if (it == have.end()) return Verdict::fail("task " + kv.first + " of user " + std::to_string(kv.second.owner) + " has vanished from the daemon's table");
				if ((unsigned)it->second != kv.second.owner) return Verdict::fail("task " + kv.first + " is filed under owner " + std::to_string(it->second) + ", should be " + std::to_string(kv.second.owner)); }
			for (auto &kv : have) if (!model.count(kv.first)) return Verdict::fail("the daemon's table holds " + kv.first + " which the map does not");
		}
		if (e.raw.compare(0, 8, "TABSIZE ") == 0 && atol(e.raw.c_str() + 8) > 16) grew = true;
	}
	Verdict v; v.nontrivial = (cross_refused && replaced && cancelled) || grew;
	if (cross_refused) v.classes.push_back("cross-user-attempt"); if (replaced) v.classes.push_back("replace"); if (cancelled) v.classes.push_back("cancel"); if (listed_nonempty) v.classes.push_back("list-nonempty"); if (grew) v.classes.push_back("table-grew");
	v.classes.push_back(maxtab < 4 ? "tasks/<4" : maxtab < 10 ? "tasks/4-9" : "tasks/10+");
	return v;
}

Verdict prop_replay(Ctx &c, const std::string &t) { g_trace = c.getoptl("trace", 0) != 0; return judge_script(t); }

// ---- UID pool: plain names, odd ones, and groups sharing low key bits (found by search over the daemon's own key function)
static std::vector<std::string> g_pool; static std::vector<std::vector<std::string>> g_groups; static bool g_have_coll = false;
static void build_pool() {
	if (!g_pool.empty()) return;
	for (int i = 0; i < 6; i++) g_pool.push_back("job" + std::to_string(i));
	g_pool.push_back("a"); g_pool.push_back(std::string(255, 'x')); g_pool.push_back(std::string(200, 'y') + "@host.example.org");
	g_pool.push_back("20200101T000000Z-1234@host"); g_pool.push_back("uid/with/slashes%20and;semi=colons"); g_pool.push_back("\xc3\xbc" "ml\xc3\xa4ut-\xe2\x82\xac"); g_pool.push_back("UID:UID:UID"); g_pool.push_back("-");
	g_pool.push_back(std::string(256, 'L')); g_pool.push_back(std::string(300, 'M') + "@host");   // class uid_too_long
	// class uid_key_low_bits: a pair of UIDs whose keys differ in bit 31 only (found by search)
	{ std::unordered_map<unsigned, std::string> seen; seen.reserve(1u << 20); for (int i = 0; i < 1500000; i++) { std::string s = "s" + std::to_string(i) + "@y"; unsigned k = sut_uid_key(s.data(), s.size()); auto it = seen.find(k ^ 0x80000000u); if (it != seen.end()) { g_pool.push_back(it->second + std::string(256, ' ')); g_pool.push_back(s + std::string(256, ' ')); break; } seen[k] = s; } }
	// groups by shared low bits
	std::map<unsigned, std::vector<std::string>> by; const unsigned BITS = 14;
	for (int i = 0; i < 200000; i++) { std::string s = "k" + std::to_string(i) + "@grp"; unsigned k = sut_uid_key(s.data(), s.size()); auto &v = by[k & ((1u << BITS) - 1)]; if (v.size() < 12) v.push_back(s); }
	for (auto &kv : by) if (kv.second.size() >= 8 && g_groups.size() < 24) g_groups.push_back(kv.second);
	// one pair of UIDs with the same 32-bit key (class uid_key_collision): put into group 0
	{ std::unordered_map<unsigned, std::string> seen; seen.reserve(1u << 20); for (int i = 0; i < 1500000; i++) { std::string s = "t" + std::to_string(i) + "@x"; unsigned k = sut_uid_key(s.data(), s.size()); auto it = seen.find(k); if (it != seen.end()) { if (!g_groups.empty()) { g_groups[0].push_back(it->second); g_groups[0].push_back(s); g_have_coll = true; } break; } seen[k] = s; } }
}

// open findings (known_findings.txt), recognised by the shape of the history
static const char *known_class(Ctx &c, const std::string &script) {
	std::map<unsigned, std::string> keys; bool longuid = false, coll = false;
	size_t p = 0; while ((p = script.find("\nUID:", p)) != std::string::npos) { size_t e = script.find('\n', p + 1); std::string u = script.substr(p + 5, e - p - 5); p = e;
		if (u.size() >= 256) longuid = true; else { unsigned k = sut_uid_key(u.data(), u.size()); auto it = keys.find(k); if (it != keys.end() && it->second != u) coll = true; keys[k] = u; } }
	bool lowbits = false; for (auto a = keys.begin(); a != keys.end(); ++a) for (auto b = std::next(a); b != keys.end(); ++b) if (__builtin_ctz(a->first ^ b->first) >= 26) lowbits = true;
	if (lowbits && c.excl("uid_key_low_bits")) return "uid_key_low_bits";
	if (longuid && c.excl("uid_too_long")) return "uid_too_long";
	if (coll && c.excl("uid_key_collision")) return "uid_key_collision";
	return nullptr;
}

void prop_gen(Ctx &c) {
	bool survey = c.getoptl("survey", 0) != 0;
	int maxops = (int)c.getoptl("maxops", 50);
	std::string params = "seed=" + std::to_string(c.seed) + " max_success=" + std::to_string(c.cases) + " max_size=" + std::to_string(c.size) + " max_discard_ratio=20";
	setenv("RC_PARAMS", params.c_str(), 1);
	build_pool();
	using rgen::R;
	auto genOp = rc::gen::tuple(R(0, 100), R(0, 3), R(0, 40), R(0, 1000), R(1, 4), R(0, 11));
	rc::check("C11", [&]() {
		if (c.shrink_exhausted()) return;
		auto ops = *rc::gen::container<std::vector<std::tuple<int, int, int, int, int, int>>>((size_t)maxops, genOp);
		size_t nops = 5 + (size_t)*R(0, maxops - 5); int grp = *R(0, (int)g_groups.size() - 1); int flavour = *R(0, 3);   // 0: plain pool, 1: colliding group, 2/3: mixed
		std::string script = "USERS 1000 1001 1002\n"; int ver = 0; double now = T0;
		bool danger = *R(0, 11) == 0;   // 1 history in 12 may use the UIDs of the open-finding classes (too long, colliding keys)
		auto pick = [&](int a, int b) -> std::string { bool g = flavour == 1 || (flavour >= 2 && (a & 1)); if (g && !g_groups.empty()) { auto &G = g_groups[(size_t)grp]; size_t n = G.size() - (grp == 0 && !danger && g_have_coll ? 2 : 0); return G[(size_t)b % n]; } const std::string &u = g_pool[(size_t)a % g_pool.size()]; if (u.size() >= 256 && !danger) return g_pool[(size_t)a % 6]; size_t bl = u.find(' '); return bl == std::string::npos ? u : u.substr(0, bl); };
		if (*R(0, 8) == 0) {   // 1 history in 8 starts with 17..20 requests, by one user or by as many different ones, before another one's first (more marks than the daemon's dirty-user table holds)
			int nf = *R(17, 21); bool distinct = *R(0, 2) == 0; if (distinct) { script = "USERS 1000 1001 1002"; for (int k = 0; k < nf; k++) script += " " + std::to_string(1003 + k); script += "\n"; }
			for (int k = 0; k < nf; k++) script += submit_op(distinct ? 1003 + (unsigned)k : 1000, "BEGIN:VCALENDAR\nVERSION:2.0\n" + ev_text(distinct ? "fl" + std::to_string(k) : g_pool[(size_t)k % 4], ++ver, false) + "END:VCALENDAR\n");
			script += submit_op(1001, "BEGIN:VCALENDAR\nVERSION:2.0\n" + ev_text(g_pool[4], ++ver, false) + "END:VCALENDAR\n") + "DUMP\n" + submit_op(1001, "GET /queue HTTP/1.1\r\nHost: echsd\r\n\r\n") + "DUMP\n";
		}
		for (size_t i = 0; i < nops && i < ops.size(); i++) {
			auto &o = ops[i]; int sel = std::get<0>(o); unsigned peer = 1000 + (unsigned)std::get<1>(o); int n = std::get<4>(o);
			if (sel < 45) { std::string b = "BEGIN:VCALENDAR\nVERSION:2.0\n"; for (int k = 0; k < (sel < 38 ? 1 : n); k++) b += ev_text(pick(std::get<2>(o) + k, std::get<5>(o) + k), ++ver, std::get<3>(o) % 10 == 0); b += "END:VCALENDAR\n"; script += submit_op(peer, b, sel % 5 == 0 ? 1 + (size_t)std::get<3>(o) % 97 : 0); }
			else if (sel < 65) { std::string b = "BEGIN:VCALENDAR\nVERSION:2.0\nMETHOD:CANCEL\n"; for (int k = 0; k < (sel < 60 ? 1 : n); k++) b += ev_text(pick(std::get<2>(o) + k, std::get<5>(o) + k), 0, false); b += "END:VCALENDAR\n"; script += submit_op(peer, b); }
			else if (sel < 90) { int w = std::get<3>(o) % 8; std::string path = w < 3 ? "sched" : w < 5 ? "queue" : w == 5 ? "u/" + std::to_string(1000 + std::get<5>(o) % 3) + "/sched" : w == 6 ? "u/" + std::to_string(1000 + std::get<5>(o) % 3) + "/queue" : std::string(std::get<5>(o) & 1 ? "sched" : "queue") + "?tuid=job" + std::to_string(std::get<2>(o) % 6);
				script += submit_op(peer, "GET /" + path + " HTTP/1.1\r\nHost: echsd\r\n\r\n"); }
			else { now += 1 + std::get<3>(o); char b[96]; snprintf(b, sizeof b, "ADV %.3f 0.001\n", now); script += b; if (sel > 95) script += "EXITALL\n"; }
			script += "DUMP\n";
		}
		const char *kc = known_class(c, script);
		Verdict v = kc ? Verdict::known(kc) : judge_script(script);
		c.st.record(script, v);
		if (v.k == Verdict::FAIL && survey) { c.st.survey_add(v.msg.substr(0, 70), script.substr(0, 40000) + " :: " + v.msg); return; }
		if (v.k == Verdict::FAIL) { c.note_fail(script, v.msg); RC_FAIL(v.msg); }
	});
}
