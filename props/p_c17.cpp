// C17  BYEASTER and SHIFT extensions mean what the README says.
//  easter : exhaustive — for every N in -366..366 the rule FREQ=YEARLY;BYEASTER=N from 1901-01-01 must
//           yield exactly { Easter(y) + N days } within 1901-01-01..2099-12-31 (independent computus)
//  shift  : metamorphic on echse's own unshifted output: unroll(r;SHIFT=s) == S_s applied to unroll(r)
#include "harness.hpp"
#include "strmcase.hpp"
#include "rulegen.hpp"
#include "computus.hpp"

using namespace vh;

static const int64_t LO = civil::days_from_civil(1901, 1, 1), HI = civil::days_from_civil(2099, 12, 31);

static bool g_ended = false;   // did the last unroll see end-of-stream?
static std::vector<int64_t> unroll_days(const std::string &rule, int64_t start_day, int n, std::string *err, int64_t until_day = INT64_MAX) {
	std::string ics = sc::vcal(sc::vevent("c17@verif", start_day * civil::MS_DAY, true, {"RRULE:" + rule}));
	sc::Unrolled u = sc::unroll_text(ics, n, SUT_F_NO_ATTRS, 20.0);
	std::vector<int64_t> r;
	if (!u.sbx.ok()) { *err = u.sbx.describe(); return r; }
	if (u.tasks.size() != 1) { *err = "event not accepted"; return r; }
	g_ended = u.ended[0];
	for (auto &o : u.tasks[0]) { if (o.ms < -4e18) { *err = "occurrence is no calendar date"; return r; } int64_t d = civil::floordiv(o.ms, civil::MS_DAY); if (d > until_day) break; r.push_back(d); }
	return r;
}
static std::string dtxt(int64_t d) { return civil::fmt_ical(d * civil::MS_DAY, true); }

// ---- easter
static std::string judge_easter(const std::string &list, const std::vector<int> &ns) {
	// Easters of 1900 and 2100 lie outside the design range (echse documents the y%4 leap rule), so only the
	// window that Easters 1901..2099 alone determine is judged
	const int64_t WLO = LO + 366, WHI = HI - 366;
	std::set<int64_t> want;
	for (int y = 1901; y <= 2099; y++) for (int n : ns) { int64_t d = computus::easter(y) + n; if (d >= WLO && d <= WHI) want.insert(d); }
	std::string err;
	std::vector<int64_t> got0 = unroll_days("FREQ=YEARLY;BYEASTER=" + list, LO, (int)ns.size() * 200 + 10, &err, HI);
	if (!err.empty()) return err;
	std::vector<int64_t> got; for (int64_t d : got0) if (d >= WLO && d <= WHI) got.push_back(d);
	std::set<int64_t> gs(got.begin(), got.end());
	for (int64_t d : want) if (!gs.count(d)) { civil::YMD q = civil::civil_from_days(d); return "BYEASTER=" + list + ": " + dtxt(d) + " is owed (Easter " + std::to_string(q.y) + " region) but is not produced"; }
	for (int64_t d : got) if (!want.count(d)) return "BYEASTER=" + list + ": " + dtxt(d) + " is produced but is no Easter+N day";
	return "";
}

// ---- shift
struct SCase { std::string rule; int64_t start; computus::Shift sh; int count = -1; };
static std::string sctext(const SCase &c) { return "shift start=" + dtxt(c.start) + " count=" + std::to_string(c.count) + " sh=" + computus::text(c.sh).substr(7) + " rule=" + c.rule; }
static bool parse_shift(const std::string &t, computus::Shift &s) {
	s = computus::Shift();
	const char *p = t.c_str(); char *on;
	while (*p) {
		bool minus = *p == '-';
		long v = strtol(p, &on, 10); if (on == p) return false;
		if (*on == 'B' || *on == 'b') { s.has_b = true; s.b = (int)v; if (v == 0 && minus) s.neg_zero = true; on++; if (*on == '+') { s.inv = true; on++; } else if (*on == '-') { if (v == 0) s.neg_zero = true; s.inv = true; on++; } }
		else s.d = (int)v;
		if (*on == ',') on++;
		p = on;
	}
	return true;
}
static std::string judge_shift(const SCase &c) {
	std::string err;
	// baseline: the unshifted rule anchored at least two years earlier, by a whole number of INTERVAL steps so that the phase is the same
	civil::YMD q = civil::civil_from_days(c.start);
	int iv = 1; { size_t p = c.rule.find("INTERVAL="); if (p != std::string::npos) iv = std::max(1, atoi(c.rule.c_str() + p + 9)); }
	int step = c.rule.find("FREQ=YEARLY") != std::string::npos ? 12 * iv : iv, back = step * ((24 + step - 1) / step);
	int mm = (q.y * 12 + ((int)q.m - 1)) - back;
	int64_t early = civil::days_from_civil(mm / 12, (unsigned)(mm % 12) + 1, std::min<unsigned>(q.d, 28));
	int n = c.count > 0 ? c.count : 120;
	// the baseline must reach well past the n-th shifted occurrence: dense rules need many pops
	std::vector<int64_t> base = unroll_days(c.rule, early, 4000, &err, HI);
	if (!err.empty()) return "baseline: " + err;
	std::vector<int64_t> got = unroll_days(c.rule + computus::text(c.sh) + (c.count > 0 ? ";COUNT=" + std::to_string(c.count) : ""), c.start, n, &err);
	bool got_ended = g_ended;
	if (!err.empty()) return err;
	if (base.size() < 40) return "baseline: too short";
	std::set<int64_t> ws;
	for (int64_t d : base) { int64_t s = computus::apply(c.sh, d); if (s >= c.start) ws.insert(s); }
	std::vector<int64_t> want(ws.begin(), ws.end());
	// only the part of the shifted set that the baseline window certainly covers is judged
	int64_t horizon = std::min(HI, base.back() - 800);
	if (c.count > 0 && (int)want.size() > c.count) want.resize((size_t)c.count);
	std::set<int64_t> gs(got.begin(), got.end());
	std::vector<int64_t> gu(gs.begin(), gs.end());
	size_t i = 0;
	for (; i < want.size() && i < gu.size(); i++) {
		if (want[i] > horizon) return "";
		if (want[i] != gu[i]) return "occurrence #" + std::to_string(i + 1) + ": echse " + dtxt(gu[i]) + " (weekday " + std::to_string(civil::weekday(gu[i])) + "), README semantics applied to echse's own unshifted dates give " + dtxt(want[i]);
	}
	if (i < want.size() && want[i] <= horizon && got_ended) return "echse ends after " + std::to_string(gu.size()) + " occurrences, " + dtxt(want[i]) + " is owed";
	if (c.count > 0 && (int)got.size() > c.count) return "more occurrences than COUNT after the shift";
	return "";
}

Verdict prop_replay(Ctx &, const std::string &t) {
	if (t.compare(0, 7, "easter ") == 0) {
		std::string list = t.substr(7); std::vector<int> ns; std::stringstream ss(list); std::string tok; while (std::getline(ss, tok, ',')) ns.push_back(atoi(tok.c_str()));
		std::string m = judge_easter(list, ns); return m.empty() ? Verdict::pass() : Verdict::fail(m);
	}
	if (t.compare(0, 6, "shift ") == 0) {
		SCase c; auto field = [&](const char *k) -> std::string { size_t p = t.find(std::string(k) + "="); if (p == std::string::npos) return ""; p += strlen(k) + 1; size_t e = t.find(' ', p); return t.substr(p, e == std::string::npos ? e : e - p); };
		bool dummy; c.start = civil::floordiv(rref::parse_ical_dt(field("start"), &dummy), civil::MS_DAY); c.count = atoi(field("count").c_str());
		if (!parse_shift(field("sh"), c.sh)) return Verdict::inconclusive("bad shift");
		size_t p = t.find(" rule="); if (p == std::string::npos) return Verdict::inconclusive("bad case"); c.rule = t.substr(p + 6);
		std::string m = judge_shift(c); return m.empty() ? Verdict::pass() : Verdict::fail(m);
	}
	return Verdict::inconclusive("unknown case");
}

void prop_gen(Ctx &c) {
	bool survey = c.getoptl("survey", 0) != 0;
	// ---- Easter: every single N, dealt to the workers
	bool all_done = true;
	for (int n = -366; n <= 366 && !c.fail.have; n++) {
		if ((n + 366) % c.nworkers != c.worker) continue;
		if (c.excl("byeaster_cross_year")) { bool cross = false; for (int y = 1901; y <= 2099 && !cross; y++) { civil::YMD q = civil::civil_from_days(computus::easter(y) + n); if (q.y != y) cross = true; } if (cross) { c.st.excluded["byeaster_cross_year"]++; all_done = false; continue; } }
		std::string list = std::to_string(n);
		std::string m = judge_easter(list, {n});
		Verdict v = m.empty() ? Verdict::pass() : Verdict::fail(m); v.nontrivial = true; v.classes.push_back("easter/single-N");
		c.st.record("easter " + list, v);
		if (!m.empty()) { all_done = false; if (survey) { c.st.survey_add("easter", "easter " + list + " :: " + m); continue; } c.note_fail("easter " + list, m); }
	}
	c.st.exhaustive = all_done;
	c.st.extra["easter_expectations_per_N"] = 199;
	if (c.fail.have) return;
	// ---- sampled: Easter lists and SHIFT cases
	std::string params = "seed=" + std::to_string(c.seed) + " max_success=" + std::to_string(c.cases) + " max_size=" + std::to_string(c.size);
	setenv("RC_PARAMS", params.c_str(), 1);
	using rgen::R;
	auto genShift = rc::gen::map(rc::gen::tuple(R(0, 10), R(-366, 367), rc::gen::weightedOneOf<int>({{7, R(-30, 31)}, {3, R(-262, 263)}}), R(0, 10)), [](std::tuple<int, int, int, int> t) {
		computus::Shift s; int k = std::get<0>(t);
		if (k < 3) { s.d = std::get<1>(t); if (!s.d) s.d = 7; }
		else { s.has_b = true; s.b = std::get<2>(t); if (k < 5) s.d = std::get<1>(t) % 40; int v = std::get<3>(t);
			if (s.b == 0) { s.neg_zero = v % 2; s.inv = v >= 5; } else s.inv = v >= 6;
			if (v == 9) s.b = 0; }
		return s; });
	auto genBase = rc::gen::map(rc::gen::tuple(R(0, 6), rgen::unsigned_list(1, 12), rgen::signed_list(31), rgen::byday_ord(5), R(1903, 2090), R(1, 13), R(1, 29), R(0, 10), R(1, 80)), [](auto t) {
		SCase c; int k = std::get<0>(t);
		auto lst = [](const std::vector<int> &v) { std::string s; for (size_t i = 0; i < v.size(); i++) { if (i) s += ","; s += std::to_string(v[i]); } return s; };
		auto bd = [](const std::vector<std::pair<int, int>> &v) { std::string s; for (size_t i = 0; i < v.size(); i++) { if (i) s += ","; if (v[i].first) s += std::to_string(v[i].first); s += rref::WD_NAME[v[i].second]; } return s; };
		switch (k) {
		case 0: c.rule = "FREQ=MONTHLY;BYMONTHDAY=" + lst(std::get<2>(t)); break;
		case 1: c.rule = "FREQ=MONTHLY;BYDAY=" + bd(std::get<3>(t)); break;
		case 2: c.rule = "FREQ=YEARLY;BYMONTH=" + lst(std::get<1>(t)) + ";BYMONTHDAY=" + lst(std::get<2>(t)); break;
		case 3: c.rule = "FREQ=YEARLY;BYMONTH=" + lst(std::get<1>(t)) + ";BYDAY=" + bd(std::get<3>(t)); break;
		case 4: c.rule = "FREQ=MONTHLY;BYMONTH=" + lst(std::get<1>(t)) + ";BYMONTHDAY=" + lst(std::get<2>(t)); break;
		default: c.rule = "FREQ=MONTHLY;BYMONTHDAY=1,15,28,-1"; break;
		}
		c.start = civil::days_from_civil(std::get<4>(t), (unsigned)std::get<5>(t), (unsigned)std::get<6>(t));
		if (std::get<7>(t) < 4) c.count = std::get<8>(t);
		// every third rule steps by more than one month / year
		{ static const int IV[] = {2, 3, 4, 5, 6, 7, 12, 2, 3}; int pick = std::get<8>(t); if (pick % 3 == 0) { int ivl = IV[(pick / 3) % 9]; if (c.rule.compare(0, 11, "FREQ=YEARLY") == 0) ivl = 2 + ivl % 3; size_t sc = c.rule.find(';'); c.rule.insert(sc == std::string::npos ? c.rule.size() : sc, ";INTERVAL=" + std::to_string(ivl)); } }
		return c; });
	auto genEasterList = rc::gen::container<std::vector<int>>(3, R(-366, 367));
	rc::check("C17 sampled", [&]() {
		if (c.shrink_exhausted()) return;
		if (*R(0, 10) < 2) {
			std::vector<int> ns = *genEasterList; std::string list; for (size_t i = 0; i < ns.size(); i++) { if (i) list += ","; list += std::to_string(ns[i]); }
			if (c.excl("byeaster_cross_year")) { for (int n : ns) if (n < -80 || n > 245) { c.st.excluded["byeaster_cross_year"]++; return; } }
			std::string m = judge_easter(list, ns); Verdict v = m.empty() ? Verdict::pass() : Verdict::fail(m); v.nontrivial = true; v.classes.push_back("easter/list");
			c.st.record("easter " + list, v);
			if (!m.empty()) { if (survey) { c.st.survey_add("easter-list", "easter " + list + " :: " + m); return; } c.note_fail("easter " + list, m); RC_FAIL(m); }
			return;
		}
		SCase cs = *genBase; cs.sh = *genShift;
		// open finding: a shift that leaves the year before/after (only three per-year candidate sets exist)
		if (c.excl("shift_two_years") && std::abs(cs.sh.d) + std::abs(cs.sh.b) * 7 / 5 + 4 >= 365) { c.st.excluded["shift_two_years"]++; return; }
		std::string txt = sctext(cs);
		std::string m = judge_shift(cs);
		if (m.compare(0, 9, "baseline:") == 0) { c.st.extra["baseline_failed"]++; RC_DISCARD("baseline"); }
		Verdict v = m.empty() ? Verdict::pass() : Verdict::fail(m);
		unsigned w = civil::weekday(cs.start);
		v.nontrivial = true;
		v.classes.push_back(cs.sh.has_b ? (cs.sh.b == 0 ? "shift/0B" : cs.sh.inv ? "shift/NB+-" : "shift/NB") : "shift/days");
		if (cs.sh.has_b && cs.sh.d) v.classes.push_back("shift/days+bdays");
		if (w >= 6) v.classes.push_back("start-on-weekend");
		if (cs.count > 0) v.classes.push_back("COUNT");
		if (cs.rule.find("INTERVAL=") != std::string::npos) v.classes.push_back("INTERVAL>1");
		c.st.record(txt, v);
		if (!m.empty()) { if (survey) { c.st.survey_add(v.classes[0] + " " + m.substr(0, 14), txt + " :: " + m); return; } c.note_fail(txt, m); RC_FAIL(m); }
	});
}
