// C09  Every rule terminates and stays in bounds; empty sets end the stream.
// Attack surfaces, all under ASan + bounds and a CPU budget:
//  (a) direct rrul_fill_* call on an exact 128-slot heap block (the caller's contract)
//  (b) hostile VEVENT text through parser -> stream -> 300 pops
// The libFuzzer target fuzz/f_c09.cpp drives the same oracle from bytes.
#include "harness.hpp"
#include "strmcase.hpp"
#include <rapidcheck.h>

using namespace vh;

struct Case { std::string dtstart; std::string rule; };   // dtstart: text after "DTSTART" incl. params and ':'
static std::string ctext(const Case &c) { return "dtstart=" + c.dtstart + " rule=" + c.rule; }
static bool cparse(const std::string &t, Case &c) {
	size_t a = t.find("dtstart="), b = t.find(" rule=");
	if (a != 0 || b == std::string::npos) return false;
	c.dtstart = t.substr(8, b - 8); c.rule = t.substr(b + 6);
	return true;
}

static bool parse_fields(const std::string &dt, sut_inst_t &i) {
	// take the value after the last ':'
	size_t p = dt.rfind(':'); std::string v = p == std::string::npos ? dt : dt.substr(p + 1);
	int y = 0, m = 0, d = 0, H = 0, M = 0, S = 0;
	if (v.size() >= 15 && v[8] == 'T') { if (sscanf(v.c_str(), "%4d%2d%2dT%2d%2d%2d", &y, &m, &d, &H, &M, &S) != 6) return false; i = {y, m, d, H, M, S, SUT_ALL_SEC}; return true; }
	if (sscanf(v.c_str(), "%4d%2d%2d", &y, &m, &d) != 3) return false;
	i = {y, m, d, SUT_ALL_DAY, 0, 0, 0}; return true;
}

// known-class predicates (active only while the open finding reproduces)
static std::string known(const Ctx &c, const Case &cs) {
	auto has = [&](const char *k) { return cs.rule.find(k) != std::string::npos; };
	bool sub = has("FREQ=SECONDLY") || has("FREQ=MINUTELY") || has("FREQ=HOURLY");
	bool filt = has("BYMONTH=") || has("BYMONTHDAY=") || has("BYDAY=") || has("BYYEARDAY=") || has("BYHOUR=") || has("BYMINUTE=") || has("BYSECOND=");
	if (c.excl("subdaily_sparse_scan") && sub && filt) return "subdaily_sparse_scan";
	return "";
}

static Verdict judge(Ctx &ctx, const Case &cs, double budget = 10.0) {
	Verdict v;
	bool odd = cs.rule.find(',') != std::string::npos || cs.rule.find("INTERVAL") != std::string::npos || cs.rule.find("COUNT") != std::string::npos;
	v.nontrivial = odd;
	size_t fp = cs.rule.find("FREQ="); std::string f = fp == std::string::npos ? "none" : cs.rule.substr(fp + 5, cs.rule.find(';', fp) == std::string::npos ? std::string::npos : cs.rule.find(';', fp) - fp - 5);
	v.classes.push_back("freq/" + f);
	std::string kc = known(ctx, cs);
	if (!kc.empty()) return Verdict::known(kc);
	// the direct filler surface only gets instants echse's own date parser produces (run inside the sandbox below)
	sut_inst_t proto{};
	bool have_proto = true;
	std::string ics = sc::vcal("BEGIN:VEVENT\nUID:c09@verif\nSUMMARY:c09\nDTSTART" + cs.dtstart + "\nRRULE:" + cs.rule + "\nEND:VEVENT\n");
	auto run = [&](double cpu) {
		return sandbox([&](Out &o) {
			// (a) direct fill
			{ size_t cp = cs.dtstart.rfind(':'); std::string val = cp == std::string::npos ? cs.dtstart : cs.dtstart.substr(cp + 1);
			  char *vs = strdup(val.c_str()); have_proto = sut_dt_strp(vs, &proto) > 0 && proto.y != 0; free(vs); }
			if (have_proto) {
				int cnt = -1; char *r = strdup(cs.rule.c_str());
				int n = sut_fill(r, proto, &cnt);
				free(r);
				o.printf("FILL %d %d\n", n, cnt);
			}
			// (b) full path
			sut_buf_t b = {nullptr, 0, 0};
			sut_parse_dump(ics.data(), ics.size(), nullptr, 0, 300, SUT_F_NO_ATTRS, &b);
			// after the end, asking again must keep answering end (checked inside dump via END marker only) -> count lines
			size_t nocc = 0; bool end = false;
			if (b.p) { for (char *q = b.p; (q = strstr(q, "\nO ")); q++) nocc++; end = strstr(b.p, "\nEND\n") != nullptr; }
			o.printf("FULL %zu %d\n", nocc, (int)end);
		}, cpu);
	};
	(void)parse_fields;
	SbxResult r = run(budget);
	if (r.st == SbxResult::TIMEOUT) { r = run(budget * 3); if (r.st == SbxResult::TIMEOUT) { Verdict fv = Verdict::fail("asking for the next occurrence did not return within " + std::to_string((int)(budget * 3)) + " CPU seconds"); fv.classes = v.classes; fv.nontrivial = v.nontrivial; return fv; } }
	if (!r.ok()) { Verdict fv = Verdict::fail(r.describe()); fv.classes = v.classes; fv.nontrivial = v.nontrivial; return fv; }
	int n = 0, cnt = -1;
	if (sscanf(r.out.c_str(), "FILL %d %d", &n, &cnt) == 2) {
		if (n > 64) { Verdict fv = Verdict::fail("filler reports " + std::to_string(n) + " results for 64 slots"); fv.classes = v.classes; return fv; }
		if (cnt > 0 && n > cnt) { Verdict fv = Verdict::fail("filler reports " + std::to_string(n) + " results, COUNT=" + std::to_string(cnt)); fv.classes = v.classes; return fv; }
		v.classes.push_back(n == 0 ? "fill/empty" : n >= 63 ? "fill/full" : "fill/partial");
	}
	return v;
}

Verdict prop_replay(Ctx &ctx, const std::string &t) {
	Case c; if (!cparse(t, c)) return Verdict::inconclusive("unparseable case");
	ctx.exclude.clear();
	return judge(ctx, c);
}

void prop_gen(Ctx &c) {
	bool survey = c.getoptl("survey", 0) != 0;
	std::string params = "seed=" + std::to_string(c.seed) + " max_success=" + std::to_string(c.cases) + " max_size=" + std::to_string(c.size);
	setenv("RC_PARAMS", params.c_str(), 1);
	using rc::gen::inRange; using rc::gen::resize;
	auto R = [](int lo, int hi) { return resize(1000, inRange(lo, hi)); };
	auto pick = [](std::vector<std::string> v) { return rc::gen::elementOf(v); };
	auto intlist = [=](int lo, int hi, int maxn) {
		return rc::gen::mapcat(R(0, 10), [=](int cls) -> rc::Gen<std::string> {
			if (cls < 2) {   // full range
				std::string s; for (int i = lo; i <= hi; i++) { if (i == 0 && lo < 0) continue; if (!s.empty()) s += ","; s += std::to_string(i); } return rc::gen::just(s); }
			size_t n = cls < 5 ? 1 : cls < 8 ? 2 + (size_t)cls % 3 : (size_t)maxn;
			return rc::gen::map(rc::gen::container<std::vector<int>>(n, rc::gen::weightedOneOf<int>({{5, R(lo, hi + 1)}, {1, rc::gen::element(lo, hi, 0, hi + 1, lo - 1, 99, -99, 400)}})), [](std::vector<int> v) { std::string s; for (size_t i = 0; i < v.size(); i++) { if (i) s += ","; s += std::to_string(v[i]); } return s; });
		});
	};
	auto genRule = rc::gen::map(rc::gen::tuple(
		pick({"SECONDLY", "MINUTELY", "HOURLY", "DAILY", "WEEKLY", "MONTHLY", "YEARLY"}),
		rc::gen::tuple(R(0, 100), pick({"1", "2", "3", "5", "7", "11", "12", "13", "24", "25", "60", "61", "100", "1000", "86400", "2147483647", "2147483648", "4294967295", "-1", "0"})),
		rc::gen::tuple(R(0, 100), pick({"1", "2", "3", "63", "64", "65", "127", "128", "129", "1000", "2147483647", "2147483648", "4294967295", "-1"})),
		rc::gen::tuple(R(0, 100), intlist(1, 12, 6), R(0, 100), intlist(-31, 31, 8), R(0, 100), intlist(-366, 366, 10)),
		rc::gen::tuple(R(0, 100), intlist(0, 23, 24), R(0, 100), intlist(0, 59, 60), R(0, 100), intlist(0, 59, 60)),
		rc::gen::tuple(R(0, 100), intlist(-53, 53, 6), R(0, 100), intlist(-366, 366, 6), R(0, 100), rc::gen::container<std::vector<std::pair<int, int>>>(3, rc::gen::pair(R(-54, 55), R(0, 7)))),
		rc::gen::tuple(R(0, 100), pick({"20201231T235959Z", "19000101", "19011213T204552Z", "20380119T031408Z", "99991231", "00000000", "20200230"}), R(0, 100), pick({"SHIFT=366", "SHIFT=-366", "SHIFT=30B", "SHIFT=-30B-", "SHIFT=366,30B+", "BYEASTER=-366,366", "BYEASTER=0", "SCALE=HIJRI", "SCALE=HIJRI.IVC", "SCALE=HIJRI.DIYANET"}))),
		[](auto t) {
			static const char *WD[] = {"MO", "TU", "WE", "TH", "FR", "SA", "SU"};
			std::string s = "FREQ=" + std::get<0>(t);
			auto &iv = std::get<1>(t); if (std::get<0>(iv) < 55) s += ";INTERVAL=" + std::get<1>(iv);
			auto &ct = std::get<2>(t); if (std::get<0>(ct) < 30) s += ";COUNT=" + std::get<1>(ct);
			auto &d = std::get<3>(t);
			if (std::get<0>(d) < 30) s += ";BYMONTH=" + std::get<1>(d);
			if (std::get<2>(d) < 30) s += ";BYMONTHDAY=" + std::get<3>(d);
			if (std::get<4>(d) < 12) s += ";BYYEARDAY=" + std::get<5>(d);
			auto &tm = std::get<4>(t);
			if (std::get<0>(tm) < 35) s += ";BYHOUR=" + std::get<1>(tm);
			if (std::get<2>(tm) < 35) s += ";BYMINUTE=" + std::get<3>(tm);
			if (std::get<4>(tm) < 35) s += ";BYSECOND=" + std::get<5>(tm);
			auto &w = std::get<5>(t);
			if (std::get<0>(w) < 12) s += ";BYWEEKNO=" + std::get<1>(w);
			if (std::get<2>(w) < 15) s += ";BYSETPOS=" + std::get<3>(w);
			if (std::get<4>(w) < 30) { s += ";BYDAY="; auto &v = std::get<5>(w); for (size_t i = 0; i < v.size(); i++) { if (i) s += ","; if (v[i].first % 3 == 0 && v[i].first) s += std::to_string(v[i].first); s += WD[v[i].second]; } }
			auto &x = std::get<6>(t);
			if (std::get<0>(x) < 20) s += ";UNTIL=" + std::get<1>(x);
			if (std::get<2>(x) < 15) s += ";" + std::get<3>(x);
			return s; });
	auto genStart = rc::gen::map(rc::gen::tuple(R(0, 100), R(1890, 2110), R(0, 20), R(0, 40), R(0, 25), R(0, 61), R(0, 62), R(0, 10)), [](std::tuple<int, int, int, int, int, int, int, int> t) {
		char b[64]; int cls = std::get<0>(t);
		int y = std::get<1>(t), m = std::get<2>(t), d = std::get<3>(t), H = std::get<4>(t), M = std::get<5>(t), S = std::get<6>(t);
		if (cls < 70) { m = m % 12 + 1; d = d % 28 + 1; H %= 24; M %= 60; S %= 60; if (y < 1902) y = 1902; if (y > 2098) y = 2098; }   // mostly sane
		else if (cls < 80) { y = std::get<7>(t) < 5 ? 0 : 9999; }
		bool date = std::get<7>(t) < 3;
		if (date) snprintf(b, sizeof b, ";VALUE=DATE:%04d%02d%02d", y, m % 100, d % 100);
		else snprintf(b, sizeof b, ":%04d%02d%02dT%02d%02d%02dZ", y, m % 100, d % 100, H % 100, M % 100, S % 100);
		return std::string(b); });
	// incongruent INTERVAL / BYxxx combinations by construction: the unit's own BY part never (or rarely) meets the stride
	auto genIncong = rc::gen::map(rc::gen::tuple(R(0, 7), rc::gen::element(2, 3, 4, 5, 6, 7, 10, 12, 15, 20, 24, 30, 60, 120, 3600, 86400), R(0, 60), R(0, 100), R(0, 60), R(0, 100), R(1, 13)), [](std::tuple<int, int, int, int, int, int, int> t) {
		static const char *F[] = {"SECONDLY", "MINUTELY", "HOURLY", "DAILY", "WEEKLY", "MONTHLY", "YEARLY"};
		static const char *P[] = {"BYSECOND", "BYMINUTE", "BYHOUR", "BYMONTHDAY", "BYMONTH", "BYMONTH", "BYMONTH"};
		static const int MOD[] = {60, 60, 24, 28, 12, 12, 12};
		int f = std::get<0>(t);
		std::string s = std::string("FREQ=") + F[f] + ";INTERVAL=" + std::to_string(std::get<1>(t)) + ";" + P[f] + "=" + std::to_string(std::get<2>(t) % MOD[f] + (f >= 3));
		if (std::get<3>(t) < 30 && f <= 1) s += std::string(";") + (f == 0 ? "BYMINUTE" : "BYHOUR") + "=" + std::to_string(std::get<4>(t) % (f == 0 ? 60 : 24));
		if (std::get<5>(t) < 20) s += ";BYMONTH=" + std::to_string(std::get<6>(t));
		// MONTHLY/YEARLY: a whole residue class of months, and a SHIFT (the fillers move their starting month / year for shifted rules, which must not defeat the congruence reasoning)
		if (f >= 5 && std::get<3>(t) >= 40) {
			int iv = std::get<1>(t), g = 12; for (int a = iv % 12, b = 12; a; ) { int r = b % a; b = a; a = r; g = b; } if (iv % 12 == 0) g = 12;
			std::string ml; for (int m = 1 + std::get<2>(t) % (g > 0 ? g : 1); m <= 12; m += (g > 0 ? g : 1)) { if (!ml.empty()) ml += ","; ml += std::to_string(m); }
			s = std::string("FREQ=") + F[f] + ";INTERVAL=" + std::to_string(iv) + ";BYMONTH=" + ml;
			if (std::get<5>(t) < 40) s += ";BYMONTHDAY=" + std::to_string(1 + std::get<4>(t) % 28);
			static const char *SH[] = {"1", "-1", "1B", "-1B", "0B", "-70", "30", "45", "-5B", "200", "2B", "-31"};
			if (std::get<5>(t) % 10 < 7) s += std::string(";SHIFT=") + SH[std::get<4>(t) % 12];
		}
		return s; });
	rc::check("C09", [&]() {
		if (c.shrink_exhausted()) return;
		Case cs; cs.rule = *R(0, 100) < 20 ? *genIncong : *genRule; cs.dtstart = *genStart;
		std::string txt = ctext(cs);
		Verdict v = judge(c, cs);
		c.st.record(txt, v);
		if (v.k == Verdict::FAIL && survey) { c.st.survey_add(v.classes[0] + " :: " + v.msg.substr(0, 60), txt + " :: " + v.msg.substr(0, 400)); return; }
		if (v.k == Verdict::FAIL) { c.note_fail(txt, v.msg); RC_FAIL(v.msg); }
	});
}
