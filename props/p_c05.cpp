// C05  Tasks are read as written and survive serialisation unchanged.
//  attrs : a generated task model (every README field independently present/absent, calendar-level
//          defaults, shuffled property order, several VEVENTs per calendar) must be read back exactly
//  rt    : a generated event is consumed for k occurrences, written with echs_task_icalify() (what echsq,
//          echsd's checkpoint and echse merge do), re-read; attributes and the next occurrences with
//          their durations must be those of the original stream at that position
#include "harness.hpp"
#include "strmcase.hpp"
#include "icalgen.hpp"
#include "c01_known.hpp"
#include "daemon.hpp"
#include <algorithm>

using namespace vh;

// ---------- part A
static Verdict judge_attrs(const std::string &ics, const std::vector<std::string> &expected) {
	SbxResult r = sandbox([&](Out &o) { sut_buf_t b = {nullptr, 0, 0}; sut_parse_dump(ics.data(), ics.size(), nullptr, 0, 0, 0, &b); if (b.p) o.put(std::string(b.p, b.n)); }, 10.0);
	if (!r.ok()) return Verdict::fail(r.describe());
	std::vector<std::string> got; std::stringstream ss(r.out); std::string ln;
	while (std::getline(ss, ln)) if (ln.compare(0, 5, "SCHE ") == 0) got.push_back(ln);
	if (got.size() != expected.size()) return Verdict::fail(std::to_string(got.size()) + " tasks read, " + std::to_string(expected.size()) + " written");
	for (size_t i = 0; i < got.size(); i++) if (got[i] != expected[i]) {
		size_t p = 0; while (p < got[i].size() && p < expected[i].size() && got[i][p] == expected[i][p]) p++;
		size_t s = expected[i].rfind(' ', p); if (s == std::string::npos) s = 0;
		return Verdict::fail("task #" + std::to_string(i + 1) + " differs from what was written at [" + expected[i].substr(s, 90) + "] read [" + got[i].substr(std::min(s, got[i].size()), 90) + "]");
	}
	return Verdict::pass();
}

// ---------- part C: the queue file echsd writes for a user with several tasks, read back
static Verdict judge_chk(const std::string &ics, std::vector<std::string> expected) {
	std::string spool = dm::make_spool(); if (spool.empty()) return Verdict::inconclusive("no spool");
	dm::Trace tr = dm::run_session(spool, "USERS 1000\n" + dm::submit_op(1000, ics) + "CHK\n", 20.0);
	auto files = dm::read_spool(spool); dm::rm_rf(spool);
	if (!tr.sbx.ok()) return Verdict::fail("daemon: " + tr.sbx.describe());
	size_t acc = 0; for (auto &e : tr.ev) if (e.k == dm::Ev::REPLY) for (auto &st : e.rp.status) if (st.second[0] == '2') acc++;
	if (acc != expected.size()) { Verdict d; d.k = Verdict::DISCARD; return d; }   // not all accepted: not this part's subject
	auto it = files.find("echsq_1000.ics"); if (it == files.end()) return Verdict::fail("no queue file was written for the user");
	SbxResult r = sandbox([&](Out &o) { sut_buf_t b = {nullptr, 0, 0}; sut_parse_dump(it->second.data(), it->second.size(), nullptr, 0, 0, 0, &b); if (b.p) o.put(std::string(b.p, b.n)); }, 10.0);
	if (!r.ok()) return Verdict::fail("reading the queue file back: " + r.describe());
	std::vector<std::string> got; std::stringstream ss(r.out); std::string ln;
	while (std::getline(ss, ln)) if (ln.compare(0, 5, "SCHE ") == 0) got.push_back(ln);
	std::sort(got.begin(), got.end()); std::sort(expected.begin(), expected.end());
	if (got.size() != expected.size()) return Verdict::fail("queue file holds " + std::to_string(got.size()) + " tasks, " + std::to_string(expected.size()) + " were accepted");
	for (size_t i = 0; i < got.size(); i++) if (got[i] != expected[i]) {
		size_t p = 0; while (p < got[i].size() && p < expected[i].size() && got[i][p] == expected[i][p]) p++;
		size_t s0 = expected[i].rfind(' ', p); if (s0 == std::string::npos) s0 = 0;
		return Verdict::fail("queue file of " + std::to_string(got.size()) + " tasks: " + expected[i].substr(0, expected[i].find(' ', 6)) + " was accepted with [" + expected[i].substr(s0, 90) + "] and reads back with [" + got[i].substr(std::min(s0, got[i].size()), 90) + "]");
	}
	return Verdict::pass();
}

// ---------- part B
struct RT { std::string ics; int k = 0; int nocc = 150; };
static size_t c_nocc_cut = 0;
static Verdict judge_rt(const RT &c) {
	SbxResult r = sandbox([&](Out &o) { sut_buf_t b = {nullptr, 0, 0}; sut_roundtrip(c.ics.data(), c.ics.size(), c.k, c.nocc, &b); if (b.p) o.put(std::string(b.p, b.n)); }, 20.0);
	if (r.st == SbxResult::TIMEOUT) return Verdict::inconclusive("budget (termination is C09's subject)");
	if (!r.ok()) return Verdict::fail(r.describe());
	std::string A, B, text; std::vector<std::string> AO, BO; bool aend = false, bend = false, bnotask = false, ended_before = false;
	std::stringstream ss(r.out); std::string ln; bool in_text = false;
	while (std::getline(ss, ln)) {
		if (in_text) { if (ln == "ENDTEXT") in_text = false; else text += ln + "\n"; continue; }
		if (ln == "NOTASK") { Verdict d; d.k = Verdict::DISCARD; return d; }
		if (ln.compare(0, 5, "TEXT ") == 0) { in_text = true; continue; }
		if (ln.compare(0, 3, "AO ") == 0) AO.push_back(ln.substr(3)); else if (ln.compare(0, 3, "BO ") == 0) BO.push_back(ln.substr(3));
		else if (ln == "AEND") aend = true; else if (ln == "BEND") bend = true; else if (ln.compare(0, 7, "BNOTASK") == 0) bnotask = true;
		else if (ln.compare(0, 11, "ENDED-AFTER") == 0) ended_before = true;
		else if (ln.compare(0, 12, "BEXTRA-TASKS") == 0) return Verdict::fail("the written text reads back as more than one task");
		else if (ln[0] == 'A') A = ln.substr(1); else if (ln[0] == 'B') B = ln.substr(1);
	}
	{ auto cut = [](std::vector<std::string> &v) { for (size_t i = 0; i < v.size(); i++) if (atoi(v[i].c_str()) > 2099) { v.resize(i); break; } }; size_t a0 = AO.size(); cut(AO); cut(BO); if (AO.size() < a0 && AO.empty()) { Verdict d; d.k = Verdict::DISCARD; return d; } if (AO.size() < a0) c_nocc_cut = AO.size(); else c_nocc_cut = (size_t)c.nocc; }
	if (AO.empty()) {
		// the original has nothing left: nothing (or nothing that schedules anything) must be written
		if (!bnotask && !BO.empty()) return Verdict::fail("the stream is exhausted after " + std::to_string(c.k) + " occurrences but the written task still yields " + BO[0]);
		Verdict v; v.classes.push_back("rt/at-end"); return v;
	}
	if (bnotask) return Verdict::fail("after " + std::to_string(c.k) + " occurrences the written text does not read back as a task; text: " + text.substr(0, 400));
	// owner is not part of the serialisation (the queue file / peer credentials carry it)
	auto strip_owner = [](std::string s) { size_t p = s.find(" owner="); if (p == std::string::npos) return s; size_t e = s.find(' ', p + 1); if (s[p + 7] == '"') { e = s.find('"', p + 8); e = e == std::string::npos ? e : e + 1; } return s.substr(0, p) + (e == std::string::npos ? "" : s.substr(e)); };
	if (strip_owner(A) != strip_owner(B)) return Verdict::fail("attributes change through write/read: before [" + strip_owner(A).substr(0, 300) + "] after [" + strip_owner(B).substr(0, 300) + "]");
	for (size_t i = 0; i < AO.size() || i < BO.size(); i++) {
		if (i >= AO.size()) { if (AO.size() < c_nocc_cut) return Verdict::fail("re-read task yields an extra occurrence " + BO[i] + " after the original ended"); break; }
		if (i >= BO.size() && BO.size() >= c_nocc_cut) break;
		if (i >= BO.size()) return Verdict::fail("after k=" + std::to_string(c.k) + ": remaining occurrence #" + std::to_string(i + 1) + " " + AO[i] + " is missing from the re-read task (it ends after " + std::to_string(BO.size()) + ")" );
		if (AO[i] != BO[i]) return Verdict::fail("after k=" + std::to_string(c.k) + ": remaining occurrence #" + std::to_string(i + 1) + " is " + AO[i] + " in the original stream but " + BO[i] + " in the re-read task; text: " + text.substr(0, 500));
	}
	(void)aend; (void)bend; (void)ended_before;
	Verdict v; v.classes.push_back(c.k == 0 ? "rt/k=0" : c.k < 63 ? "rt/k<63" : c.k <= 65 ? "rt/k=63..65" : c.k < 127 ? "rt/k<127" : "rt/k>=127");
	return v;
}

// case text: first line "attrs" / "rt k=<k> nocc=<n>", expected dumps as "E <line>" lines for attrs, then the calendar
static std::string text_attrs(const std::string &ics, const std::vector<std::string> &exp) { std::string s = "attrs\n"; for (auto &e : exp) s += "E " + e + "\n"; return s + "ICS\n" + ics; }
static std::string text_chk(const std::string &ics, const std::vector<std::string> &exp) { std::string s = "chk\n"; for (auto &e : exp) s += "E " + e + "\n"; return s + "ICS\n" + ics; }
static std::string text_rt(const RT &c) { return "rt k=" + std::to_string(c.k) + " nocc=" + std::to_string(c.nocc) + "\nICS\n" + c.ics; }

Verdict prop_replay(Ctx &, const std::string &t) {
	size_t p = t.find("\nICS\n"); if (p == std::string::npos) return Verdict::inconclusive("bad case");
	std::string head = t.substr(0, p), ics = t.substr(p + 5);
	if (head.compare(0, 3, "chk") == 0) { std::vector<std::string> exp; std::stringstream ss(head); std::string ln; while (std::getline(ss, ln)) if (ln.compare(0, 2, "E ") == 0) exp.push_back(ln.substr(2)); Verdict v = judge_chk(ics, exp); if (v.k == Verdict::DISCARD) return Verdict::inconclusive("not all events accepted"); return v; }
	if (head.compare(0, 5, "attrs") == 0) { std::vector<std::string> exp; std::stringstream ss(head); std::string ln; while (std::getline(ss, ln)) if (ln.compare(0, 2, "E ") == 0) exp.push_back(ln.substr(2)); return judge_attrs(ics, exp); }
	RT c; c.ics = ics; if (sscanf(head.c_str(), "rt k=%d nocc=%d", &c.k, &c.nocc) != 2) return Verdict::inconclusive("bad case");
	Verdict v = judge_rt(c); if (v.k == Verdict::DISCARD) return Verdict::inconclusive("event not accepted"); return v;
}

void prop_gen(Ctx &c) {
	bool survey = c.getoptl("survey", 0) != 0;
	std::string params = "seed=" + std::to_string(c.seed) + " max_success=" + std::to_string(c.cases) + " max_size=" + std::to_string(c.size) + " max_discard_ratio=20";
	setenv("RC_PARAMS", params.c_str(), 1);
	using rgen::R;
	auto genA = rc::gen::tuple(rc::gen::container<std::vector<ig::Task>>(3, ig::gen_task()), R(1, 4), rc::gen::tuple(ig::gen_nn(20), ig::gen_nn(20), ig::gen_nn(20), R(-40, 63), R(-01400, 01000)), R(0, 100),
		rc::gen::container<std::vector<int>>(7, rc::gen::weightedOneOf<int>({{5, rc::gen::just(0)}, {3, R(20, 80)}})));
	// part B events: the C01 rule generator plus the extensions and RDATE/EXDATE/duration
	auto genExtRule = rc::gen::map(rc::gen::tuple(rgen::rule_case(true), R(0, 100), R(-30, 31), R(0, 100), rgen::signed_list(200), R(0, 100), R(0, 11), R(0, 100), R(1, 200)), [](auto t) {
		rgen::RuleCase g = std::get<0>(t);
		static const char *HS[] = {"HIJRI", "HIJRI.IA", "HIJRI.IC", "HIJRI.IIA", "HIJRI.IIC", "HIJRI.IIIA", "HIJRI.IIIC", "HIJRI.IVA", "HIJRI.IVC", "HIJRI.UMMULQURA", "HIJRI.DIYANET"};
		if (std::get<1>(t) < 15 && g.rule.freq <= rref::MONTHLY) g.rule.extra += ";SHIFT=" + std::to_string(std::get<2>(t)) + (std::get<1>(t) < 8 ? "B" : "");
		if (std::get<3>(t) < 8 && g.rule.freq == rref::YEARLY) { std::string s = ";BYEASTER="; auto &v = std::get<4>(t); for (size_t i = 0; i < v.size(); i++) { if (i) s += ","; s += std::to_string(v[i]); } g.rule.extra += s; }
		if (std::get<5>(t) < 6 && g.rule.freq <= rref::MONTHLY) g.rule.extra += std::string(";SCALE=") + HS[std::get<6>(t)];
		if (g.rule.count < 0 && !g.until_mode && std::get<7>(t) < 50) g.rule.count = std::get<8>(t);
		return g; });
	auto genB = rc::gen::tuple(rc::gen::container<std::vector<rgen::RuleCase>>(3, genExtRule), R(0, 100), ig::gen_task(), R(0, 12), R(0, 100), rc::gen::container<std::vector<int>>(5, R(0, 300)), R(0, 100), R(0, 8), R(0, 100), R(0, 4));
	rc::check("C05", [&]() {
		if (c.shrink_exhausted()) return;
		int part = *R(0, 100);
		if (part >= 88) {
			// ---- part C: 2..4 tasks of one user, accepted by the daemon, checkpointed, the queue file read back
			auto t = *genA;
			std::vector<ig::Task> tasks(std::get<0>(t).begin(), std::get<0>(t).end()); { auto more = *ig::gen_task(); tasks.push_back(more); } tasks.resize(2 + (size_t)std::get<1>(t) % 3);
			for (size_t i = 0; i < tasks.size(); i++) { ig::Task &k = tasks[i]; k.uid = "q" + std::to_string(i) + "-" + k.uid; k.start = civil::to_ms(2030, 1, 1 + (unsigned)i); k.sched_lines = {"RRULE:FREQ=YEARLY"};
				k.owner = ig::NumOrName(); k.setuid = ig::NumOrName(); k.setgid = ig::NumOrName();   // credentials come from the connection
				if (k.summary.empty()) k.summary = "true"; }
			ig::CalDefaults d; std::string ics = ig::render_calendar(tasks, d, ig::Layout());
			ig::CalDefaults q; q.owner.kind = 1; q.owner.num = 1000;   // what the daemon files the tasks under
			std::vector<std::string> exp; for (auto &k : tasks) exp.push_back(ig::expected_dump(k, q));
			std::string txt = text_chk(ics, exp);
			Verdict v = judge_chk(ics, exp);
			if (v.k == Verdict::DISCARD) RC_DISCARD("not accepted");
			bool mixed = false; for (auto &k : tasks) for (auto &k2 : tasks) if ((k.max_simul >= 0) != (k2.max_simul >= 0)) mixed = true;
			v.nontrivial = mixed; v.classes.push_back("chk/" + std::to_string(tasks.size()) + "-tasks"); if (mixed) v.classes.push_back("chk/max-simul-set-and-unset");
			c.st.record(txt, v);
			if (v.k == Verdict::FAIL && survey) { c.st.survey_add("C " + v.msg.substr(0, 60), txt.substr(0, 3000) + " :: " + v.msg); return; }
			if (v.k == Verdict::FAIL) { c.note_fail(txt, v.msg); RC_FAIL(v.msg); }
			return;
		}
		if (part < 35) {
			// ---- part A
			auto t = *genA;
			std::vector<ig::Task> tasks(std::get<0>(t).begin(), std::get<0>(t).begin() + std::get<1>(t));
			for (size_t i = 0; i < tasks.size(); i++) { tasks[i].uid = "a" + std::to_string(i) + "-" + tasks[i].uid; tasks[i].start = civil::to_ms(2030, 1, 1 + (unsigned)i); }
			ig::CalDefaults d; auto &dd = std::get<2>(t); d.owner = std::get<0>(dd); d.setuid = std::get<1>(dd); d.setgid = std::get<2>(dd); d.max_simul = std::max(-1, std::get<3>(dd)); d.umask = std::max(-1, std::get<4>(dd));
			ig::Layout lay; lay.crlf = std::get<3>(t) < 50; lay.fold_cols = std::get<4>(t);
			std::string ics = ig::render_calendar(tasks, d, lay);
			std::vector<std::string> exp; for (auto &k : tasks) exp.push_back(ig::expected_dump(k, d));
			std::string txt = text_attrs(ics, exp);
			Verdict v = judge_attrs(ics, exp);
			int nset = 0; bool odd = false;
			for (auto &k : tasks) { nset += !k.summary.empty() + !k.description.empty() + !k.organizer.empty() + !k.location.empty() + !k.shell.empty() + !k.ifile.empty() + !k.ofile.empty() + !k.efile.empty() + (k.mailout.kind != 0) + (k.umask >= 0) + (k.max_simul >= 0);
				if (!k.setuid.kind && (!k.location.empty() || !k.shell.empty() || !k.ifile.empty() || k.mailout.kind || k.umask >= 0)) odd = true; }
			v.nontrivial = nset >= 3 && odd;
			v.classes.push_back("attrs/" + std::to_string(tasks.size()) + "-events"); if (d.owner.kind || d.setuid.kind || d.umask >= 0 || d.max_simul >= 0) v.classes.push_back("attrs/calendar-defaults");
			c.st.record(txt, v);
			if (v.k == Verdict::FAIL && survey) { c.st.survey_add("A " + v.msg.substr(0, 60), txt.substr(0, 100) + " :: " + v.msg); return; }
			if (v.k == Verdict::FAIL) { c.note_fail(txt, v.msg); RC_FAIL(v.msg); }
			return;
		}
		// ---- part B
		auto t = *genB;
		auto &g = std::get<0>(t);
		int nr = std::get<1>(t) < 80 ? 1 : std::get<1>(t) < 93 ? 2 : 3;
		ig::Task k = std::get<2>(t);
		k.uid = "rt-" + k.uid;
		k.date_only = g[0].date_only; k.start = g[0].seed_ms; if (k.date_only) k.start -= civil::floormod(k.start, civil::MS_DAY);
		bool haspart = false;
		for (int i = 0; i < nr; i++) { rref::Rule r = g[(size_t)i].rule; if (k.date_only) { r.byhour.clear(); r.byminute.clear(); r.bysecond.clear(); if (r.freq > rref::DAILY) r.freq = rref::DAILY; }
			if (g[(size_t)i].until_mode) { r.has_until = true; r.until_date = k.date_only; r.until = k.start + (int64_t)g[(size_t)i].until_index * 40 * civil::MS_DAY; if (!k.date_only) r.until -= civil::floormod(r.until, 1000); r.count = -1; }
			if (r.nparts()) haspart = true;
			k.sched_lines.push_back("RRULE:" + r.text()); }
		int64_t unit = k.date_only ? civil::MS_DAY : 3600000LL;
		if (std::get<4>(t) < 20) { std::string s = k.date_only ? "RDATE;VALUE=DATE:" : "RDATE:"; auto &o = std::get<5>(t); for (size_t i = 0; i < 3; i++) { if (i) s += ","; s += civil::fmt_ical(k.start + (int64_t)o[i] * unit, k.date_only); } k.sched_lines.push_back(s); }
		if (std::get<4>(t) >= 20 && std::get<4>(t) < 35) { std::string s = k.date_only ? "EXDATE;VALUE=DATE:" : "EXDATE:"; auto &o = std::get<5>(t); for (size_t i = 0; i < 3; i++) { if (i) s += ","; s += civil::fmt_ical(k.start + (int64_t)o[i] * unit, k.date_only); } k.sched_lines.push_back(s); }
		if (std::get<6>(t) < 25) k.sched_lines.push_back(std::string("DURATION:") + (k.date_only ? "P1D" : std::vector<std::string>{"PT1S", "PT90S", "PT1H", "P1DT2H3M4S", "PT5M", "P1W", "PT0S", "PT23H59M59S"}[(size_t)std::get<7>(t)]));
		static const int KS[] = {0, 1, 5, 62, 63, 64, 65, 127, 130, 2, 66, 200};
		RT rc_; rc_.k = KS[std::get<3>(t)]; rc_.nocc = 150;
		rc_.ics = ig::render_calendar({k}, ig::CalDefaults(), ig::Layout());
		// open known findings
		{ std::string all; for (auto &l : k.sched_lines) all += l + "\n"; std::string kc;
		  if (c.excl("rt_multi_rrule") && nr > 1) kc = "rt_multi_rrule";
		  if (c.excl("rt_rdate") && all.find("RDATE") != std::string::npos) kc = "rt_rdate";
		  if (c.excl("rt_shift") && all.find("SHIFT=") != std::string::npos) kc = "rt_shift";
		  if (c.excl("rt_exceptions") && all.find("EXDATE") != std::string::npos) kc = "rt_exceptions";
		  if (c.excl("rt_c01_classes")) { Ctx all5; for (const char *n : {"bysetpos_weekly_or_finer", "bysetpos_with_time_parts", "subdaily_byyearday", "yearly_byweekno_edge", "yearly_byyearday_limited"}) all5.exclude.insert(n);
			for (int i = 0; i < nr; i++) { rref::Result dummy; rref::Rule r = g[(size_t)i].rule; if (!c01known::match(all5, r, k.start, k.date_only, dummy).empty()) kc = "rt_c01_classes"; } }
		  if (!kc.empty()) { c.st.record("", Verdict::known(kc)); return; } }
		std::string txt = text_rt(rc_);
		Verdict v = judge_rt(rc_);
		if (v.k == Verdict::DISCARD) { c.st.extra["event_not_accepted"]++; RC_DISCARD("not accepted"); }
		v.nontrivial = rc_.k > 0 && haspart;
		if (nr > 1) v.classes.push_back("rt/multi-rrule");
		for (auto &l : k.sched_lines) { for (const char *kw : {"SHIFT", "BYEASTER", "SCALE", "BYSETPOS", "COUNT", "UNTIL", "RDATE", "EXDATE", "DURATION", "BYMINUTE", "BYSECOND"}) if (l.find(kw) != std::string::npos) v.classes.push_back(std::string("rt/has-") + kw); }
		c.st.record(txt, v);
		if (v.k == Verdict::FAIL && survey) { std::string sig; for (auto &cl : v.classes) if (cl.compare(0, 7, "rt/has-") == 0) sig += cl.substr(7) + " "; c.st.survey_add("B k=" + std::to_string(rc_.k) + " " + v.msg.substr(0, 30) + " | " + sig, txt.substr(txt.find("DTSTART"), 400) + " :: " + v.msg.substr(0, 700)); return; }
		if (v.k == Verdict::FAIL) { c.note_fail(txt, v.msg); RC_FAIL(v.msg); }
	});
}
