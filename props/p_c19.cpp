// C19  Small-integer set containers behave as sets.
// Oracle: std::set<int>.  Domain: the documented value range of each of the
// six containers.  All insertion sequences of length 1 and 2 and (thorough)
// all ordered triples are enumerated completely; the quick tier enumerates all
// unordered triples in two insertion orders; longer sequences are generated
// with rapidcheck.
#include "harness.hpp"
#include "sut.h"
#include <rapidcheck.h>

using namespace vh;

struct TypeInfo { const char *name; int lo, hi; bool member; };
static const TypeInfo TY[6] = {
	{"bituint31", 0, 30, true}, {"bituint63", 0, 62, false},
	{"bitint31", -31, 31, true}, {"bitint63", -63, 63, false},
	{"bitint383", -383, 383, false}, {"bitint447", -447, 447, false},
};

static std::string seq_text(int type, const std::vector<int> &v) {
	std::string s = std::string("type=") + TY[type].name + " seq=";
	for (size_t i = 0; i < v.size(); i++) { if (i) s += ","; s += std::to_string(v[i]); }
	return s;
}

static bool parse_case(const std::string &t, int &type, std::vector<int> &v) {
	size_t p = t.find("type="), q = t.find(" seq=");
	if (p != 0 || q == std::string::npos) return false;
	std::string tn = t.substr(5, q - 5);
	type = -1;
	for (int i = 0; i < 6; i++) if (tn == TY[i].name) type = i;
	if (type < 0) return false;
	std::stringstream ss(t.substr(q + 5)); std::string tok;
	v.clear();
	while (std::getline(ss, tok, ',')) { if (!tok.empty()) v.push_back(atoi(tok.c_str())); }
	for (int x : v) if (x < TY[type].lo || x > TY[type].hi) return false;
	return !v.empty();
}

static bool is_nontrivial(int type, const int *v, int n) {
	bool has0 = false, allneg = true, extreme = false;
	for (int i = 0; i < n; i++) {
		if (v[i] == 0) has0 = true;
		if (v[i] >= 0) allneg = false;
		if (v[i] == TY[type].lo || v[i] == TY[type].hi) extreme = true;
	}
	if (has0 || allneg || extreme) return true;
	if (n >= 13) { std::set<int> s(v, v + n); if (s.size() >= 13) return true; }
	return false;
}

// the oracle: returns empty string when the container behaved as the set
static std::string judge_seq(int type, const int *v, int n) {
	int out[1024]; int hasbits = -1;
	int maxout = (TY[type].hi - TY[type].lo + 1) + 4;
	int k = sut_bi_eval(type, v, n, out, maxout, &hasbits);
	std::set<int> model(v, v + n);
	char buf[256];
	if (k < 0) return "shim error";
	if (!hasbits) return "has_bits_p says empty after insertions";
	bool bad = (size_t)k != model.size();
	if (!bad) {
		std::multiset<int> got(out, out + k);
		std::multiset<int> want(model.begin(), model.end());
		bad = got != want;
	}
	if (bad) {
		std::string s = "iteration yields {";
		for (int i = 0; i < k && i < 40; i++) { s += (i ? "," : ""); s += std::to_string(out[i]); }
		s += k >= maxout ? ",... (does not terminate within range+4 steps)}" : "}";
		s += " but the inserted set is {";
		int c = 0;
		for (int x : model) { if (c++ >= 40) break; s += (c > 1 ? "," : ""); s += std::to_string(x); }
		s += "}";
		return s;
	}
	if (TY[type].member) {
		for (int x = TY[type].lo; x <= TY[type].hi; x++) {
			int m = sut_bi_member(type, v, n, x);
			if (m != (int)model.count(x)) {
				snprintf(buf, sizeof buf, "has_bit_p(%d) says %d, model %d", x, m, (int)model.count(x));
				return buf;
			}
		}
	}
	return "";
}

struct ChunkRes { uint64_t eval = 0, nt = 0; std::string fail_case, fail_msg; std::vector<std::string> samples; bool crashed = false; std::string crash; };

// enumerate a chunk inside the sandbox.  len 1: all; len 2: all with first==a; len 3: first==a
// mode3: 0 = unordered triples a<=b<=c in orders (a,b,c),(c,b,a),(b,c,a) ; 1 = all ordered triples
static bool thorough_orders = false;
static ChunkRes run_chunk(int type, int len, int a, int mode3) {
	ChunkRes cr;
	SbxResult r = sandbox([&](Out &o) {
		uint64_t ev = 0, nt = 0; std::string fc, fm; std::vector<std::string> smp;
		int lo = TY[type].lo, hi = TY[type].hi;
		auto one = [&](const int *v, int n) {
			ev++;
			bool isnt = is_nontrivial(type, v, n);
			if (isnt) { nt++; if (smp.size() < 2 && (ev % 97 == 1)) smp.push_back(seq_text(type, std::vector<int>(v, v + n))); }
			if (fc.empty()) { std::string m = judge_seq(type, v, n); if (!m.empty()) { fc = seq_text(type, std::vector<int>(v, v + n)); fm = m; } }
		};
		int v[3];
		if (len == 1) { v[0] = a; one(v, 1); }
		else if (len == 2) { v[0] = a; for (int b = lo; b <= hi; b++) { v[1] = b; one(v, 2); } }
		else if (mode3 == 1) { v[0] = a; for (int b = lo; b <= hi; b++) for (int c = lo; c <= hi; c++) { v[1] = b; v[2] = c; one(v, 3); } }
		else {
			for (int b = a; b <= hi; b++) for (int c = b; c <= hi; c++) {
				v[0] = a; v[1] = b; v[2] = c; one(v, 3);
				if (a != c) { v[0] = c; v[1] = b; v[2] = a; one(v, 3); }
				if (thorough_orders && (a != b || b != c)) { v[0] = b; v[1] = c; v[2] = a; one(v, 3); }
			}
		}
		o.printf("%llu %llu\n", (unsigned long long)ev, (unsigned long long)nt);
		o.put(fc + "\n" + fm + "\n");
		for (auto &s : smp) o.put(s + "\n");
	}, 60.0);
	if (!r.ok()) { cr.crashed = true; cr.crash = r.describe(); return cr; }
	std::stringstream ss(r.out); std::string line;
	std::getline(ss, line); { unsigned long long e = 0, n = 0; sscanf(line.c_str(), "%llu %llu", &e, &n); cr.eval = e; cr.nt = n; }
	std::getline(ss, cr.fail_case); std::getline(ss, cr.fail_msg);
	while (std::getline(ss, line)) if (!line.empty()) cr.samples.push_back(line);
	return cr;
}

static Verdict judge_case_sandboxed(int type, const std::vector<int> &v) {
	SbxResult r = sandbox([&](Out &o) { o.put(judge_seq(type, v.data(), (int)v.size())); }, 10.0);
	Verdict vd;
	if (!r.ok()) vd = Verdict::fail(r.describe());
	else if (!r.out.empty()) vd = Verdict::fail(r.out);
	vd.nontrivial = is_nontrivial(type, v.data(), (int)v.size());
	vd.classes.push_back(std::string(TY[type].name) + "/len" + (v.size() <= 3 ? std::to_string(v.size()) : v.size() < 13 ? "4-12" : "13+"));
	return vd;
}

Verdict prop_replay(Ctx &, const std::string &ct) {
	int type; std::vector<int> v;
	if (!parse_case(ct, type, v)) return Verdict::inconclusive("unparseable or out-of-domain case: " + ct);
	return judge_case_sandboxed(type, v);
}

void prop_gen(Ctx &c) {
	bool thorough = c.tier == "thorough";
	bool all_done = true;
	// ---- exhaustive part, partitioned over workers by (type,len,first value)
	uint64_t unit = 0;
	for (int type = 0; type < 6 && !c.fail.have; type++) {
		for (int len = 1; len <= 3 && !c.fail.have; len++) {
			// ordered triples for the four small types always; for the two big ones in thorough
			int mode3 = (type < 4 || thorough) ? 1 : 0;
			for (int a = TY[type].lo; a <= TY[type].hi; a++) {
				if ((int)(unit++ % (uint64_t)c.nworkers) != c.worker) continue;
				ChunkRes cr = run_chunk(type, len, a, mode3);
				std::string cls = std::string(TY[type].name) + "/len" + std::to_string(len) + (len == 3 ? (mode3 ? "-ordered" : "-unordered-x3") : "");
				if (cr.crashed) {
					c.st.failures++; all_done = false;
					c.note_fail(seq_text(type, {a}), "chunk " + cls + " first=" + std::to_string(a) + ": " + cr.crash);
					break;
				}
				c.st.evaluations += cr.eval; c.nt_bulk += cr.nt; c.st.classes[cls] += cr.eval;
				for (auto &s : cr.samples) if (c.st.samples.size() < 10 && (unit % 41 == 0 || c.st.samples.size() < 2)) c.st.samples.push_back(s);
				if (!cr.fail_case.empty()) { c.st.failures++; all_done = false; c.note_fail(cr.fail_case, cr.fail_msg); break; }
			}
		}
	}
	// ---- sampled longer sequences (rapidcheck; shrinks)
	if (!c.fail.have) {
		std::string params = "seed=" + std::to_string(c.seed) + " max_success=" + std::to_string(c.cases) + " max_size=" + std::to_string(c.size) + " max_discard_ratio=100";
		setenv("RC_PARAMS", params.c_str(), 1);
		auto gen_case = rc::gen::mapcat(rc::gen::inRange(0, 6), [](int type) {
			int lo = TY[type].lo, hi = TY[type].hi;
			auto val = rc::gen::resize(1000, rc::gen::weightedOneOf<int>({
				{6, rc::gen::inRange(lo, hi + 1)},
				{1, rc::gen::element(0, lo, hi, hi - 1, lo + 1 < 0 ? lo + 1 : 1)},
				{1, rc::gen::inRange(lo < 0 ? lo : 0, 1)},      // negatives / zero
				{1, rc::gen::inRange(0, std::min(hi, 40) + 1)}}));
			auto lenv = rc::gen::resize(1000, rc::gen::inRange<size_t>(4, 41));
			return rc::gen::mapcat(lenv, [=](size_t n) {
				return rc::gen::map(rc::gen::container<std::vector<int>>(n, val), [=](std::vector<int> v) { return std::make_pair(type, v); });
			});
		});
		rc::check("C19 sampled long sequences", [&]() {
		if (c.shrink_exhausted()) return;
			auto cs = *gen_case;
			std::string txt = seq_text(cs.first, cs.second);
			Verdict v = judge_case_sandboxed(cs.first, cs.second);
			c.st.record(txt, v);
			if (v.k == Verdict::FAIL) { c.note_fail(txt, v.msg); RC_FAIL(v.msg); }
		});
	}
	c.st.exhaustive = all_done;
}
