/* virtual-time stand-in for libev: just what echsd.c uses */
#ifndef FAKE_EV_H
#define FAKE_EV_H
#include <stddef.h>
typedef double ev_tstamp;
struct ev_loop { int dummy; };
#define EV_P struct ev_loop *loop
#define EV_P_ EV_P,
#define EV_A loop
#define EV_A_ EV_A,
#define EV_READ 1
#define EVFLAG_AUTO 0
#define EVBREAK_ALL 2
#define EV_WATCHER(type) int active; int pending; void *data; void (*cb)(struct ev_loop*, struct type*, int);
typedef struct ev_io { EV_WATCHER(ev_io) int fd; int events; } ev_io;
typedef struct ev_timer { EV_WATCHER(ev_timer) ev_tstamp at; ev_tstamp repeat; } ev_timer;
typedef struct ev_periodic { EV_WATCHER(ev_periodic) ev_tstamp at; ev_tstamp offset; ev_tstamp interval; ev_tstamp (*reschedule_cb)(struct ev_periodic*, ev_tstamp); } ev_periodic;
typedef struct ev_signal { EV_WATCHER(ev_signal) int signum; } ev_signal;
typedef struct ev_child { EV_WATCHER(ev_child) int flags; int pid; int rpid; int rstatus; } ev_child;
#define ev_init_(w,cb_) ((w)->active=(w)->pending=0,(w)->cb=(cb_))
#define ev_io_init(w,cb_,fd_,ev_) (ev_init_(w,cb_),(w)->fd=(fd_),(w)->events=(ev_))
#define ev_timer_init(w,cb_,after,rep) (ev_init_(w,cb_),(w)->at=(after),(w)->repeat=(rep))
#define ev_periodic_init(w,cb_,ofs,ival,rcb) (ev_init_(w,cb_),(w)->offset=(ofs),(w)->interval=(ival),(w)->reschedule_cb=(rcb))
#define ev_signal_init(w,cb_,sig) (ev_init_(w,cb_),(w)->signum=(sig))
#define ev_child_init(w,cb_,pid_,trace) (ev_init_(w,cb_),(w)->pid=(pid_),(w)->flags=!!(trace))
extern struct ev_loop *ev_default_loop(unsigned);
extern void ev_loop(struct ev_loop*, int);
extern void ev_break(struct ev_loop*, int);
extern void ev_loop_destroy(struct ev_loop*);
extern void ev_loop_fork(struct ev_loop*);
extern void ev_io_start(struct ev_loop*, ev_io*); extern void ev_io_stop(struct ev_loop*, ev_io*);
extern void ev_timer_start(struct ev_loop*, ev_timer*);
extern void ev_periodic_start(struct ev_loop*, ev_periodic*); extern void ev_periodic_stop(struct ev_loop*, ev_periodic*);
extern void ev_signal_start(struct ev_loop*, ev_signal*);
extern void ev_child_start(struct ev_loop*, ev_child*); extern void ev_child_stop(struct ev_loop*, ev_child*);
#endif
