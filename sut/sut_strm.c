/* shim for everything that goes through the iCalendar pull parser and the
 * event streams: C01 C02 C03 C05 C09 C10 C16 C17 (and the daemon model's
 * independent clones).  Results are rendered as canonical text. */
#include <string.h>
#include <stdlib.h>
#include <stdio.h>
#include <stdarg.h>
#include <unistd.h>
#include <fcntl.h>
#include <sys/mman.h>
#include "evical.h"
#include "evstrm.h"
#include "task.h"
#include "instruc.h"
#include "intern.h"
#include "tzob.h"
#include "scale.h"
#include "bufpool.h"
#include "hash.h"
#include "sut.h"

static void
bput(sut_buf_t *b, const char *s, size_t n)
{
	if (b->n + n + 1U > b->cap) {
		size_t nu = (b->cap ? b->cap * 2U : 4096U);
		while (nu < b->n + n + 1U) nu *= 2U;
		b->p = realloc(b->p, nu);
		b->cap = nu;
	}
	memcpy(b->p + b->n, s, n);
	b->n += n;
	b->p[b->n] = '\0';
}

static void __attribute__((format(printf, 2, 3)))
bprintf(sut_buf_t *b, const char *fmt, ...)
{
	char tmp[2048];
	va_list ap;
	int n;

	va_start(ap, fmt);
	n = vsnprintf(tmp, sizeof(tmp), fmt, ap);
	va_end(ap);
	if (n > 0) {
		bput(b, tmp, (size_t)n < sizeof(tmp) ? (size_t)n : sizeof(tmp) - 1U);
	}
}

void sut_buf_free(sut_buf_t *b) { free(b->p); b->p = NULL; b->n = b->cap = 0U; }

static void
bstr(sut_buf_t *b, const char *key, const char *s)
{
/* key=<escaped string> */
	if (s == NULL) {
		return;
	}
	bprintf(b, " %s=\"", key);
	for (const unsigned char *p = (const unsigned char*)s; *p; p++) {
		if (*p == '"' || *p == '\\') {
			char e[2] = {'\\', (char)*p};
			bput(b, e, 2U);
		} else if (*p < 0x20U) {
			bprintf(b, "\\x%02x", *p);
		} else {
			bput(b, (const char*)p, 1U);
		}
	}
	bput(b, "\"", 1U);
}

static void
bnms(sut_buf_t *b, const char *key, nummapstr_t x)
{
	if (!x) {
		return;
	} else if (nummapstr_str(x) != NULL) {
		bstr(b, key, nummapstr_str(x));
	} else {
		bprintf(b, " %s=#%lu", key, (unsigned long)nummapstr_num(x));
	}
}

static void
binst(sut_buf_t *b, echs_instant_t i)
{
	bprintf(b, "%u,%u,%u,%u,%u,%u,%u", (unsigned)i.y, (unsigned)i.m, (unsigned)i.d,
		(unsigned)i.H, (unsigned)i.M, (unsigned)i.S, (unsigned)i.ms);
}

static void
dump_task_attrs(sut_buf_t *b, echs_task_t t)
{
	bstr(b, "cmd", t->cmd);
	bstr(b, "desc", t->desc);
	bstr(b, "org", t->org);
	if (t->att != NULL) {
		for (size_t i = 0U; i < t->att->nl; i++) {
			bstr(b, "att", t->att->l[i]);
		}
	}
	bnms(b, "owner", t->owner);
	bnms(b, "uid", t->run_as.u);
	bnms(b, "gid", t->run_as.g);
	bstr(b, "wd", t->run_as.wd);
	bstr(b, "sh", t->run_as.sh);
	bstr(b, "in", t->in);
	bstr(b, "out", t->out);
	bstr(b, "err", t->err);
	if (t->moutset) bprintf(b, " mailout=%u", t->mailout);
	if (t->merrset) bprintf(b, " mailerr=%u", t->mailerr);
	if (t->mrunset) bprintf(b, " mailrun=%u", t->mailrun);
	/* both are stored off by one, all-ones meaning unset */
	if (t->max_simul != 63U) bprintf(b, " maxsimul=%u", t->max_simul);
	if (t->umsk != 1023U) bprintf(b, " umask=%o", t->umsk);
	switch (t->vtod_typ) {
	case VTOD_TYP_TIMEOUT:
		bprintf(b, " timeout=%lld", (long long)t->timeout.d);
		break;
	case VTOD_TYP_DUE:
		bput(b, " due=", 5U);
		binst(b, t->due);
		break;
	case VTOD_TYP_COMPL:
		bput(b, " compl=", 7U);
		binst(b, t->compl);
		break;
	default:
		break;
	}
}

static void
dump_occurrences(sut_buf_t *b, echs_evstrm_t s, int nocc, int flags)
{
	int k;

	for (k = 0; k < nocc; k++) {
		echs_event_t e;

		if (flags & SUT_F_PEEKS) {
			echs_event_t p1 = echs_evstrm_next(s);
			echs_event_t p2 = (k % 3) ? echs_evstrm_next(s) : p1;
			e = echs_evstrm_pop(s);
			if (p1.from.u != e.from.u || p2.from.u != e.from.u || p1.dur.d != e.dur.d) {
				bput(b, "PEEKDIFF\n", 9U);
			}
		} else {
			e = echs_evstrm_pop(s);
		}
		if (echs_nul_event_p(e)) {
			bput(b, "END\n", 4U);
			return;
		}
		bput(b, "O ", 2U);
		binst(b, e.from);
		if (flags & SUT_F_DUR) {
			bprintf(b, " %lld", (long long)e.dur.d);
		}
		bput(b, "\n", 1U);
	}
	bput(b, "MORE\n", 5U);
}

static void
dump_instruc(sut_buf_t *b, echs_instruc_t ins, int nocc, int flags)
{
	switch (ins.v) {
	case INSVERB_SCHE:
		if (ins.t == NULL) {
			bput(b, "SCHE-NULL\n", 10U);
			break;
		}
		bprintf(b, "SCHE uid=\"%s\"", ins.t->oid ? obint_name(ins.t->oid) : "");
		if (!(flags & SUT_F_NO_ATTRS)) {
			dump_task_attrs(b, ins.t);
		}
		bput(b, "\n", 1U);
		if (ins.t->strm != NULL) {
			dump_occurrences(b, ins.t->strm, nocc, flags);
		} else {
			bput(b, "NOSTRM\n", 7U);
		}
		free_echs_task(ins.t);
		break;
	case INSVERB_RESC:
		bprintf(b, "SUCC uid=\"%s\"\n", ins.o ? obint_name(ins.o) : "");
		break;
	case INSVERB_UNSC:
		bprintf(b, "UNSC uid=\"%s\" beg=", ins.o ? obint_name(ins.o) : "");
		binst(b, ins.rng.beg);
		bput(b, " end=", 5U);
		binst(b, ins.rng.end);
		bput(b, "\n", 1U);
		break;
	default:
		bprintf(b, "VERB%d\n", (int)ins.v);
		break;
	}
}

int
sut_parse_dump(const char *ics, size_t len, const size_t *chunks, size_t nchunks,
	       int nocc, int flags, sut_buf_t *out)
{
	ical_parser_t pp = NULL;
	size_t one = len;
	size_t off = 0U;
	int nins = 0;

	if (nchunks == 0U) {
		chunks = &one;
		nchunks = 1U;
	}
	char *prev = NULL;
	for (size_t c = 0U; c < nchunks && off < len; c++) {
		size_t z = chunks[c] < len - off ? chunks[c] : len - off;
		char *blk;
		int rc;

		if (c + 1U == nchunks) {
			z = len - off;
		}
		if (z == 0U) {
			continue;
		}
		/* exact-size heap block so that overreads are ASan reports;
		 * like the read buffers of echse/echsd/echsx it stays valid
		 * until the next push (or the last pull) */
		blk = malloc(z);
		memcpy(blk, ics + off, z);
		off += z;
		rc = echs_evical_push(&pp, blk, z);
		free(prev);
		prev = blk;
		if (rc < 0) {
			bput(out, "PUSH-REJECTED\n", 14U);
			break;
		}
		/* pull dry, exactly as echse/echsd do after every push */
		while (1) {
			echs_instruc_t ins = echs_evical_pull(&pp);

			if (ins.v == INSVERB_UNK) {
				break;
			} else if (ins.v == INSVERB_SCHE && ins.t == NULL) {
				continue;
			}
			dump_instruc(out, ins, nocc, flags);
			nins++;
		}
	}
	if (pp != NULL) {
		echs_instruc_t ins = echs_evical_last_pull(&pp);

		if (ins.v != INSVERB_UNK && !(ins.v == INSVERB_SCHE && ins.t == NULL)) {
			bput(out, "LAST: ", 6U);
			dump_instruc(out, ins, nocc, flags);
			nins++;
		}
	}
	free(prev);
	return nins;
}

/* ---- stream handles */
struct sut_strm {
	echs_evstrm_t s;
	struct echs_task_s *t;	/* owning task, may be NULL */
};

int
sut_open_streams(const char *ics, size_t len, sut_strm_t **out, int maxout)
{
	ical_parser_t pp = NULL;
	int n = 0;
	char *blk = malloc(len + 1U);

	memcpy(blk, ics, len);
	blk[len] = '\0';
	if (echs_evical_push(&pp, blk, len) < 0) {
		free(blk);
		return -1;
	}
	while (1) {
		echs_instruc_t ins = echs_evical_pull(&pp);

		if (ins.v != INSVERB_SCHE) {
			break;
		} else if (ins.t == NULL) {
			continue;
		} else if (ins.t->strm == NULL || n >= maxout) {
			free_echs_task(ins.t);
			continue;
		}
		out[n] = calloc(1U, sizeof(**out));
		out[n]->t = (struct echs_task_s*)ins.t;
		out[n]->s = ins.t->strm;
		n++;
	}
	if (pp != NULL) {
		echs_instruc_t ins = echs_evical_last_pull(&pp);
		if (ins.v == INSVERB_SCHE && ins.t != NULL) {
			free_echs_task(ins.t);
		}
	}
	free(blk);
	return n;
}

int
sut_strm_next(sut_strm_t *h, int pop, sut_inst_t *from, int64_t *dur, uint32_t *oid)
{
	echs_event_t e = pop ? echs_evstrm_pop(h->s) : echs_evstrm_next(h->s);

	if (echs_nul_event_p(e)) {
		return 0;
	}
	*from = (sut_inst_t){e.from.y, e.from.m, e.from.d, e.from.H, e.from.M, e.from.S, e.from.ms};
	if (dur) *dur = e.dur.d;
	if (oid) *oid = (uint32_t)e.oid;
	return 1;
}

sut_strm_t*
sut_strm_clone(sut_strm_t *h)
{
	sut_strm_t *r = calloc(1U, sizeof(*r));
	r->s = clone_echs_evstrm(h->s);
	return r;
}

sut_strm_t*
sut_strm_mux(sut_strm_t **s, int n)
{
/* builds the mux over the constituents' streams; the handles stay valid as
 * owners of their tasks but their streams now belong to the mux */
	sut_strm_t *r = calloc(1U, sizeof(*r));
	echs_evstrm_t *v = malloc((size_t)(n > 0 ? n : 1) * sizeof(*v));

	for (int i = 0; i < n; i++) {
		v[i] = s[i]->s;
	}
	r->s = echs_evstrm_vmux(v, (size_t)n);
	free(v);
	return r;
}

void
sut_strm_free(sut_strm_t *h)
{
	if (h == NULL) {
		return;
	}
	if (h->t != NULL) {
		free_echs_task(h->t);
	} else if (h->s != NULL) {
		free_echs_evstrm(h->s);
	}
	free(h);
}

static int
slurp_fd(int fd, sut_buf_t *out)
{
	char buf[65536];
	ssize_t n;

	lseek(fd, 0, SEEK_SET);
	while ((n = read(fd, buf, sizeof(buf))) > 0) {
		bput(out, buf, (size_t)n);
	}
	return 0;
}

int
sut_task_icalify(sut_strm_t *h, sut_buf_t *out)
{
/* what echsq / echsd's checkpoint / echse merge do: header, task, footer */
	int fd = memfd_create("icalify", 0);
	echs_instruc_t ins = {INSVERB_SCHE};

	if (fd < 0 || h->t == NULL) {
		return -1;
	}
	echs_icalify_init(fd, ins);
	echs_task_icalify(fd, h->t);
	echs_icalify_fini(fd);
	slurp_fd(fd, out);
	close(fd);
	return 0;
}

sut_strm_t*
sut_rrule_stream(const char *rrule, sut_inst_t dtstart)
{
	struct rrulsp_s rr = echs_read_rrul(rrule, strlen(rrule));
	echs_instant_t from = {.u = 0ULL};
	sut_strm_t *r;

	from.y = dtstart.y, from.m = dtstart.m, from.d = dtstart.d;
	from.H = dtstart.H, from.M = dtstart.M, from.S = dtstart.S, from.ms = dtstart.ms;
	if (rr.freq == FREQ_NONE) {
		return NULL;
	}
	r = calloc(1U, sizeof(*r));
	if ((r->s = echs_make_evstrm_rrul(from, &rr, 1U)) == NULL) {
		free(r);
		return NULL;
	}
	return r;
}

uint32_t sut_hash(const char *s, size_t n) { return (uint32_t)hash(s, n); }

void
sut_reset(void)
{
	/* NB: clear_tzobs() is not called: it forgets the zone names but not the
	 * slot counter, so zones interned afterwards stop resolving once 64 names
	 * have been seen in the process */
	clear_interns();
	clear_bufpool();
}

/* ---- C03: mux session.  Opens every task stream of ICS, lists each constituent via a
 * clone (at most CAP pops), then muxes the originals (mode 0: vmux, 1: variadic mux,
 * 2: vmux_clon) and performs OPS ('k' = peek, 'p' = pop), printing what it sees.
 * After the op string it pops AFTER more times to check that end-of-stream is sticky. */
int
sut_mux_session(const char *ics, size_t len, const char *ops, int cap, int mode, sut_buf_t *out)
{
	sut_strm_t *h[64];
	echs_evstrm_t v[64];
	echs_evstrm_t mux;
	int n = sut_open_streams(ics, len, h, 64);

	if (n <= 0) {
		bprintf(out, "NOSTREAMS %d\n", n);
		return -1;
	}
	if (mode == 1) {
		/* the variadic call takes 1..8 or exactly 17 streams */
		n = n >= 17 ? 17 : n > 8 ? 8 : n;
	}
	bprintf(out, "N %d\n", n);
	for (int i = 0; i < n; i++) {
		echs_evstrm_t c = clone_echs_evstrm(h[i]->s);
		int k;

		for (k = 0; k < cap; k++) {
			echs_event_t e = echs_evstrm_pop(c);
			if (echs_nul_event_p(e)) {
				break;
			}
			bprintf(out, "C %d ", i);
			binst(out, e.from);
			bprintf(out, " %lld %lu\n", (long long)e.dur.d, (unsigned long)e.oid);
		}
		bprintf(out, k < cap ? "CEND %d\n" : "CMORE %d\n", i);
		free_echs_evstrm(c);
	}
	for (int i = 0; i < n; i++) {
		v[i] = h[i]->s;
	}
	switch (mode) {
	default:
	case 0:
		mux = echs_evstrm_vmux(v, (size_t)n);
		break;
	case 2:
		mux = echs_evstrm_vmux_clon(v, (size_t)n);
		break;
	case 1:
		/* the variadic flavour clones its arguments */
		switch (n) {
		case 1: mux = echs_evstrm_mux(v[0], NULL); break;
		case 2: mux = echs_evstrm_mux(v[0], v[1], NULL); break;
		case 3: mux = echs_evstrm_mux(v[0], v[1], v[2], NULL); break;
		case 4: mux = echs_evstrm_mux(v[0], v[1], v[2], v[3], NULL); break;
		case 5: mux = echs_evstrm_mux(v[0], v[1], v[2], v[3], v[4], NULL); break;
		case 6: mux = echs_evstrm_mux(v[0], v[1], v[2], v[3], v[4], v[5], NULL); break;
		case 7: mux = echs_evstrm_mux(v[0], v[1], v[2], v[3], v[4], v[5], v[6], NULL); break;
		case 8: case 9: case 10: case 11: case 12: case 13: case 14: case 15: case 16:
			mux = echs_evstrm_mux(v[0], v[1], v[2], v[3], v[4], v[5], v[6], v[7], NULL); break;
		default:
			/* 17 streams: crosses the initial allocation of 16 slots */
			mux = echs_evstrm_mux(v[0], v[1], v[2], v[3], v[4], v[5], v[6], v[7], v[8], v[9], v[10], v[11], v[12], v[13], v[14], v[15], v[16], NULL); break;
		}
		break;
	}
	if (mux == NULL) {
		bput(out, "NOMUX\n", 6U);
		return -1;
	}
	for (const char *o = ops; *o; o++) {
		echs_event_t e = *o == 'p' ? echs_evstrm_pop(mux) : echs_evstrm_next(mux);

		if (echs_nul_event_p(e)) {
			bprintf(out, "%c END\n", *o == 'p' ? 'P' : 'K');
			continue;
		}
		bprintf(out, "%c ", *o == 'p' ? 'P' : 'K');
		binst(out, e.from);
		bprintf(out, " %lld %lu\n", (long long)e.dur.d, (unsigned long)e.oid);
	}
	/* no cleanup: the process is a sandbox child */
	return n;
}

/* ---- C05: serialise the (first) task of ICS after K pops and read it back.
 * Prints:  A <attrs>            attributes as read
 *          AO ...               the next NOCC occurrences of the original stream
 *          TEXT <n>\n<text>     what echs_task_icalify() wrote
 *          B <attrs>, BO ...    the same for the re-read task
 * If the original stream has ended after K pops nothing must be written. */
int
sut_roundtrip(const char *ics, size_t len, int k, int nocc, sut_buf_t *out)
{
	sut_strm_t *h[4];
	sut_strm_t *h2[4];
	sut_buf_t txt = {NULL, 0U, 0U};
	int n = sut_open_streams(ics, len, h, 4);
	int n2;

	if (n <= 0) {
		bput(out, "NOTASK\n", 7U);
		return -1;
	}
	bput(out, "A", 1U);
	dump_task_attrs(out, h[0]->t);
	bput(out, "\n", 1U);
	for (int i = 0; i < k; i++) {
		echs_event_t e = echs_evstrm_pop(h[0]->s);
		if (echs_nul_event_p(e)) {
			bprintf(out, "ENDED-AFTER %d\n", i);
			break;
		}
	}
	sut_task_icalify(h[0], &txt);
	/* now see what the original has left */
	for (int i = 0; i < nocc; i++) {
		echs_event_t e = echs_evstrm_pop(h[0]->s);
		if (echs_nul_event_p(e)) {
			bput(out, "AEND\n", 5U);
			break;
		}
		bput(out, "AO ", 3U);
		binst(out, e.from);
		bprintf(out, " %lld\n", (long long)e.dur.d);
	}
	bprintf(out, "TEXT %zu\n", txt.n);
	if (txt.n) {
		bput(out, txt.p, txt.n);
	}
	bput(out, "\nENDTEXT\n", 9U);
	n2 = txt.n ? sut_open_streams(txt.p, txt.n, h2, 4) : 0;
	if (n2 <= 0) {
		bprintf(out, "BNOTASK %d\n", n2);
		return 0;
	}
	bput(out, "B", 1U);
	dump_task_attrs(out, h2[0]->t);
	bput(out, "\n", 1U);
	for (int i = 0; i < nocc; i++) {
		echs_event_t e = echs_evstrm_pop(h2[0]->s);
		if (echs_nul_event_p(e)) {
			bput(out, "BEND\n", 5U);
			break;
		}
		bput(out, "BO ", 3U);
		binst(out, e.from);
		bprintf(out, " %lld\n", (long long)e.dur.d);
	}
	if (n2 > 1) {
		bprintf(out, "BEXTRA-TASKS %d\n", n2 - 1);
	}
	return 0;
}
