/* C15 shim: calendar scales */
#include <string.h>
#include "instant.h"
#include "scale.h"
#include "tzob.h"
#include "sut.h"

static const char *const names[] = {
	"GREGORIAN", "HIJRI_IA", "HIJRI_IC", "HIJRI_IIA", "HIJRI_IIC", "HIJRI_IIIA", "HIJRI_IIIC",
	"HIJRI_IVA", "HIJRI_IVC", "HIJRI_UMMULQURA", "HIJRI_DIYANET",
};

int sut_scale_count(void) { return (int)(sizeof(names) / sizeof(*names)); }
const char *sut_scale_name(int s) { return s >= 0 && s < sut_scale_count() ? names[s] : "?"; }

sut_inst_t
sut_rescale(sut_inst_t s, int from, int to)
{
	echs_instant_t i = {.u = 0ULL};
	i.y = s.y, i.m = s.m, i.d = s.d, i.H = s.H, i.M = s.M, i.S = s.S, i.ms = s.ms;
	i = echs_instant_attach_scale(i, (echs_scale_t)from);
	i = echs_instant_rescale(i, (echs_scale_t)to);
	if (echs_nul_instant_p(i)) {
		return (sut_inst_t){0, 0, 0, 0, 0, 0, 0};
	}
	/* the result must carry the target scale */
	if ((int)echs_instant_scale(i) != to) {
		return (sut_inst_t){-1, 0, 0, 0, 0, 0, 0};
	}
	i = echs_instant_detach_scale(i);
	return (sut_inst_t){i.y, i.m, i.d, i.H, i.M, i.S, i.ms};
}

/* the same conversion of an instant that also carries a time zone (as a DTSTART;TZID=..;SCALE=.. does);
 * -2 in .y if the zone got lost or changed on the way */
sut_inst_t
sut_rescale_zoned(sut_inst_t s, int from, int to, const char *zone)
{
	echs_instant_t i = {.u = 0ULL};
	echs_tzob_t z = echs_tzob(zone, strlen(zone));
	i.y = s.y, i.m = s.m, i.d = s.d, i.H = s.H, i.M = s.M, i.S = s.S, i.ms = s.ms;
	i = echs_instant_attach_scale(i, (echs_scale_t)from);
	i = echs_instant_attach_tzob(i, z);
	i = echs_instant_rescale(i, (echs_scale_t)to);
	if (echs_nul_instant_p(i)) {
		return (sut_inst_t){0, 0, 0, 0, 0, 0, 0};
	}
	if ((int)echs_instant_scale(i) != to) {
		return (sut_inst_t){-1, 0, 0, 0, 0, 0, 0};
	}
	if (echs_instant_tzob(i) != z) {
		return (sut_inst_t){-2, 0, 0, 0, 0, 0, 0};
	}
	i = echs_instant_detach_tzob(echs_instant_detach_scale(i));
	return (sut_inst_t){i.y, i.m, i.d, i.H, i.M, i.S, i.ms};
}

int sut_scale_ndim(int scale, int y, int m) { return (int)echs_scale_ndim((echs_scale_t)scale, (unsigned)y, (unsigned)m); }
int sut_scale_wday(int scale, sut_inst_t i) { return (int)echs_scale_wday((echs_scale_t)scale, (unsigned)i.y, (unsigned)i.m, (unsigned)i.d); }
