/* C19 shim: the six small-integer set containers of bitint.h / bitint.c,
 * driven with the caller idiom used throughout evrrul.c:
 *   for (bitint_iter_t it = 0UL; (v = xxx_next(&it, set), it);) { ... } */
#include <string.h>
#include "bitint.h"
#include "sut.h"

int
sut_bi_eval(int type, const int *vals, int n, int *out, int maxout, int *hasbits)
{
	int k = 0;
	bitint_iter_t it = 0UL;
	int v;

	switch (type) {
	case 0: {
		bituint31_t s = 0U;
		for (int i = 0; i < n; i++) s = ass_bui31(s, (unsigned int)vals[i]);
		*hasbits = bui31_has_bits_p(s);
		for (it = 0UL; (v = (int)bui31_next(&it, s), it) && k < maxout;) out[k++] = v;
		break;
	}
	case 1: {
		bituint63_t s = 0U;
		for (int i = 0; i < n; i++) s = ass_bui63(s, (unsigned int)vals[i]);
		*hasbits = bui63_has_bits_p(s);
		for (it = 0UL; (v = (int)bui63_next(&it, s), it) && k < maxout;) out[k++] = v;
		break;
	}
	case 2: {
		bitint31_t s = {0U, 0};
		for (int i = 0; i < n; i++) s = ass_bi31(s, vals[i]);
		*hasbits = bi31_has_bits_p(s);
		for (it = 0UL; (v = bi31_next(&it, s), it) && k < maxout;) out[k++] = v;
		break;
	}
	case 3: {
		bitint63_t s = {0U, 0};
		for (int i = 0; i < n; i++) s = ass_bi63(s, vals[i]);
		*hasbits = bi63_has_bits_p(s);
		for (it = 0UL; (v = bi63_next(&it, s), it) && k < maxout;) out[k++] = v;
		break;
	}
	case 4: {
		bitint383_t s;
		memset(&s, 0, sizeof(s));
		for (int i = 0; i < n; i++) ass_bi383(&s, vals[i]);
		*hasbits = bi383_has_bits_p(&s);
		for (it = 0UL; (v = bi383_next(&it, &s), it) && k < maxout;) out[k++] = v;
		break;
	}
	case 5: {
		bitint447_t s;
		memset(&s, 0, sizeof(s));
		for (int i = 0; i < n; i++) ass_bi447(&s, vals[i]);
		*hasbits = bi447_has_bits_p(&s);
		for (it = 0UL; (v = bi447_next(&it, &s), it) && k < maxout;) out[k++] = v;
		break;
	}
	default:
		return -1;
	}
	return k;
}

int
sut_bi_member(int type, const int *vals, int n, int x)
{
	switch (type) {
	case 0: {
		bituint31_t s = 0U;
		for (int i = 0; i < n; i++) s = ass_bui31(s, (unsigned int)vals[i]);
		return bui31_has_bit_p(s, (unsigned int)x);
	}
	case 2: {
		bitint31_t s = {0U, 0};
		for (int i = 0; i < n; i++) s = ass_bi31(s, vals[i]);
		return bi31_has_bit_p(s, x);
	}
	default:
		return -1;
	}
}
