/* LD_PRELOAD shim for running the real echsx(1) under test (C13, C14):
 *  - posix_spawn of /usr/sbin/sendmail is redirected to $VERIF_SENDMAIL, which records its stdin
 *    (echsx spawns the mailer with an empty environment, so the shim hands over $VERIF_MAIL_OUT)
 *  - alarm(), mkstemp() and every posix_spawn are logged to $VERIF_SHIM_LOG
 *  - with $VERIF_ALARM_SCALE_US set, alarm(n) becomes a timer of n * that many microseconds, so that
 *    deadlines of hours can be observed in a test (the value asked for is still logged unscaled)
 * Nothing else is altered. */
#define _GNU_SOURCE
#include <dlfcn.h>
#include <spawn.h>
#include <stdio.h>
#include <stdlib.h>
#include <string.h>
#include <unistd.h>
#include <sys/time.h>
#include <fcntl.h>

static void
slog(const char *fmt, const char *s, long n)
{
	const char *fn = getenv("VERIF_SHIM_LOG");
	char b[1200];
	int fd, k;
	if (!fn) return;
	if ((fd = open(fn, O_WRONLY | O_APPEND | O_CREAT, 0600)) < 0) return;
	k = snprintf(b, sizeof(b), fmt, s, n);
	if (k > 0) (void)!write(fd, b, (size_t)k < sizeof(b) ? (size_t)k : sizeof(b) - 1U);
	close(fd);
}

int
posix_spawn(pid_t *pid, const char *path, const posix_spawn_file_actions_t *fa, const posix_spawnattr_t *at, char *const argv[], char *const envp[])
{
	static int (*real)(pid_t*, const char*, const posix_spawn_file_actions_t*, const posix_spawnattr_t*, char *const[], char *const[]);
	const char *sm = getenv("VERIF_SENDMAIL");
	if (!real) real = dlsym(RTLD_NEXT, "posix_spawn");
	slog("spawn %s %ld\n", path, 0L);
	if (sm && !strcmp(path, "/usr/sbin/sendmail")) {
		static char e1[1100];
		char *env2[] = {e1, NULL};
		const char *mo = getenv("VERIF_MAIL_OUT");
		snprintf(e1, sizeof(e1), "VERIF_MAIL_OUT=%s", mo ? mo : "/dev/null");
		return real(pid, sm, fa, at, argv, env2);
	}
	return real(pid, path, fa, at, argv, envp);
}

unsigned int
alarm(unsigned int n)
{
	static unsigned int (*real)(unsigned int);
	const char *sc = getenv("VERIF_ALARM_SCALE_US");
	if (!real) real = dlsym(RTLD_NEXT, "alarm");
	slog("alarm%s %ld\n", "", (long)n);
	if (sc && n) {
		long long us = atoll(sc) * (long long)n;
		struct itimerval it = {{0, 0}, {(long)(us / 1000000), (long)(us % 1000000)}};
		if (us > 0 && us < 1000000000000LL) { setitimer(ITIMER_REAL, &it, NULL); return 0; }
	}
	return real(n);
}

int
mkstemp(char *tmpl)
{
	static int (*real)(char*);
	int fd;
	if (!real) real = dlsym(RTLD_NEXT, "mkstemp");
	fd = real(tmpl);
	slog("mkstemp %s %ld\n", tmpl, (long)fd);
	return fd;
}
