/* Daemon harness: the unmodified echsd.c is #included (so its static functions
 * are reachable) and compiled against sut/fakeev/ev.h, a deterministic
 * virtual-time stand-in for <ev.h> that reproduces what echsd relies on from
 * libev 4.x (periodics_reify): ev_periodic_start() calls reschedule_cb(w, now)
 * once; a periodic fires in a loop iteration iff at < now; on firing
 * reschedule_cb runs BEFORE the callback and all due watchers are rescheduled
 * before any callback runs; a watcher without reschedule_cb and interval is
 * stopped before its callback.  posix_spawn, getpwuid/getpwnam and the
 * checkpoint system calls are interposed.  A session is a text script run in
 * a sandbox child; everything observable is appended to a trace. */
#include "config.h"
#include <stdlib.h>
#include <unistd.h>
#include <stdint.h>
#include <stdarg.h>
#include <string.h>
#include <stdio.h>
#include <stdbool.h>
#include <errno.h>
#include <signal.h>
#include <limits.h>
#include <time.h>
#include <fcntl.h>
#include <sys/stat.h>
#include <sys/socket.h>
#include <sys/un.h>
#include <sys/types.h>
#include <sys/syscall.h>
#include <dirent.h>
#if defined HAVE_SENDFILE
# include <sys/sendfile.h>
#endif
#if defined HAVE_PATHS_H
# include <paths.h>
#endif
#include <spawn.h>
#include <pwd.h>
#include <grp.h>
/* the system declarations are in, from here on the names are ours */
static int h_pipe(int fd[2]);
static int h_posix_spawn(pid_t*, const char*, const posix_spawn_file_actions_t*, const posix_spawnattr_t*, char *const[], char *const[]);
static struct passwd *h_getpwuid(uid_t);
static struct passwd *h_getpwnam(const char*);
static int h_openat(int, const char*, int, ...);
static int h_renameat(int, const char*, int, const char*);
static int h_unlinkat(int, const char*, int);
static int h_close(int);
#define main echsd_main
#define pipe h_pipe
#define posix_spawn h_posix_spawn
#define getpwuid h_getpwuid
#define getpwnam h_getpwnam
#define openat h_openat
#define renameat h_renameat
#define unlinkat h_unlinkat
#define close h_close
#include "echsd.c"
#undef main
#undef pipe
#undef posix_spawn
#undef getpwuid
#undef getpwnam
#undef openat
#undef renameat
#undef unlinkat
#undef close
#include "sut.h"

/* ---------------- trace */
static sut_buf_t *TR;
static void
tput(const char *s, size_t n)
{
	sut_buf_t *b = TR;
	if (b->n + n + 1U > b->cap) {
		size_t nu = b->cap ? b->cap * 2U : 65536U;
		while (nu < b->n + n + 1U) nu *= 2U;
		b->p = realloc(b->p, nu);
		b->cap = nu;
	}
	memcpy(b->p + b->n, s, n);
	b->n += n;
	b->p[b->n] = '\0';
}
static void __attribute__((format(printf, 1, 2)))
tprintf(const char *fmt, ...)
{
	char tmp[8192];
	va_list ap;
	int n;
	va_start(ap, fmt);
	n = vsnprintf(tmp, sizeof(tmp), fmt, ap);
	va_end(ap);
	if (n > 0) tput(tmp, (size_t)n < sizeof(tmp) ? (size_t)n : sizeof(tmp) - 1U);
}

/* ---------------- fake libev */
static ev_tstamp vnow;
static struct ev_loop theloop;
#define MAXW 4096
static ev_periodic *pers[MAXW];
static size_t npers;
static ev_child *chs[MAXW];
static size_t nchs;
struct ev_loop *ev_default_loop(unsigned f) { (void)f; return &theloop; }
void ev_loop(struct ev_loop *l, int f) { (void)l; (void)f; }
void ev_break(struct ev_loop *l, int h) { (void)l; (void)h; }
void ev_loop_destroy(struct ev_loop *l) { (void)l; }
void ev_loop_fork(struct ev_loop *l) { (void)l; }
void ev_io_start(struct ev_loop *l, ev_io *w) { (void)l; w->active = 1; }
void ev_io_stop(struct ev_loop *l, ev_io *w) { (void)l; w->active = 0; }
void ev_timer_start(struct ev_loop *l, ev_timer *w) { (void)l; w->active = 1; }
void ev_signal_start(struct ev_loop *l, ev_signal *w) { (void)l; w->active = 1; }
void ev_periodic_start(struct ev_loop *l, ev_periodic *w)
{
	(void)l;
	if (w->active) return;
	if (w->reschedule_cb) w->at = w->reschedule_cb(w, vnow);
	w->active = 1;
	w->pending = 0;
	if (npers < MAXW) pers[npers++] = w;
}
void ev_periodic_stop(struct ev_loop *l, ev_periodic *w)
{
	(void)l;
	w->pending = 0;
	if (!w->active) return;
	for (size_t i = 0; i < npers; i++) if (pers[i] == w) { pers[i] = pers[--npers]; break; }
	w->active = 0;
}
void ev_child_start(struct ev_loop *l, ev_child *w) { (void)l; w->active = 1; if (nchs < MAXW) chs[nchs++] = w; }
void ev_child_stop(struct ev_loop *l, ev_child *w)
{
	(void)l;
	for (size_t i = 0; i < nchs; i++) if (chs[i] == w) { chs[i] = chs[--nchs]; break; }
	w->active = 0;
}

/* one loop iteration at virtual time NOW: reify all due periodics, then run their callbacks */
static void
loop_iteration(ev_tstamp now)
{
	ev_periodic *due[MAXW];
	size_t ndue = 0;

	vnow = now;
	for (int again = 1; again;) {
		again = 0;
		for (size_t i = 0; i < npers; i++) {
			ev_periodic *w = pers[i];
			if (w->at < vnow && !w->pending) {
				/* periodics_reify */
				if (w->reschedule_cb) {
					w->at = w->reschedule_cb(w, vnow);
					w->pending = 1;
					due[ndue++] = w;
				} else {
					ev_periodic_stop(&theloop, w);
					w->pending = 1;
					due[ndue++] = w;
					again = 1;
					break;
				}
			}
		}
	}
	/* feed_reverse: callbacks after all reschedules */
	for (size_t i = 0; i < ndue; i++) {
		ev_periodic *w = due[i];
		if (!w->pending) continue;	/* stopped in between (ev_periodic_stop clears pending) */
		w->pending = 0;
		w->cb(&theloop, w, 0);
	}
}

static ev_tstamp
next_due(void)
{
	ev_tstamp best = 1e300;
	for (size_t i = 0; i < npers; i++) if (pers[i]->at < best) best = pers[i]->at;
	return best;
}

/* ---------------- interposers */
static int nspawn;
static int last_rd = -1;
static void flush_spawn(void);
static int
h_pipe(int fd[2])
{
	int r;
	/* several tasks may be started in one loop iteration */
	flush_spawn();
	r = pipe(fd);
	if (!r) { if (last_rd >= 0) close(last_rd); last_rd = dup(fd[0]); }
	return r;
}
static int pending_spawn_pid;
static int trace_vtodo;	/* VTODOS op: copy every execution request into the trace */
static char pending_spawn_line[512];
static int
h_posix_spawn(pid_t *pid, const char *path, const posix_spawn_file_actions_t *fa, const posix_spawnattr_t *at, char *const argv[], char *const envp[])
{
	(void)path; (void)fa; (void)at; (void)envp;
	*pid = 1000 + ++nspawn;
	int norun = 0;
	for (int i = 1; argv[i]; i++) if (!strcmp(argv[i], "-nd") || !strcmp(argv[i], "-n") || !strcmp(argv[i], "--no-run")) norun = 1;
	snprintf(pending_spawn_line, sizeof(pending_spawn_line), "SPAWN t=%.4f pid=%d norun=%d", vnow, (int)*pid, norun);
	pending_spawn_pid = *pid;
	return 0;
}
/* run_task writes the VTODO after spawning: called after every callback round to attach it */
static void
flush_spawn(void)
{
	char vb[16384];
	ssize_t k;
	if (!pending_spawn_pid) return;
	k = last_rd >= 0 ? read(last_rd, vb, sizeof(vb) - 1U) : 0;
	if (k < 0) k = 0;
	vb[k] = '\0';
	/* extract UID and DURATION lines */
	const char *u = strstr(vb, "\nUID:"), *d = strstr(vb, "\nDURATION:");
	char uid[256] = "", dur[64] = "";
	if (u) { u += 5; size_t n = strcspn(u, "\n"); if (n >= sizeof(uid)) n = sizeof(uid) - 1U; memcpy(uid, u, n); uid[n] = 0; }
	if (d) { d += 10; size_t n = strcspn(d, "\n"); if (n >= sizeof(dur)) n = sizeof(dur) - 1U; memcpy(dur, d, n); dur[n] = 0; }
	const char *su = strstr(vb, "\nX-ECHS-SETUID:");
	tprintf("%s uid=%s dur=%s setuid=%d\n", pending_spawn_line, uid, dur, su ? atoi(su + 15) : -1);
	if (trace_vtodo) tprintf("VTODO %zd\n%s\nENDVTODO\n", k, vb);
	pending_spawn_pid = 0;
	if (last_rd >= 0) { close(last_rd); last_rd = -1; }
}

static struct passwd pws[64];
static char pwn[64][32], pwd_[64][48];
static int npw;
static struct passwd*
h_getpwuid(uid_t u)
{
	for (int i = 0; i < npw; i++) if (pws[i].pw_uid == u) return &pws[i];
	return NULL;
}
static struct passwd*
h_getpwnam(const char *n)
{
	for (int i = 0; i < npw; i++) if (!strcmp(pws[i].pw_name, n)) return &pws[i];
	return NULL;
}
static void
add_user(uid_t u)
{
	if (npw >= 64 || h_getpwuid(u)) return;
	snprintf(pwn[npw], sizeof(pwn[npw]), u ? "user%u" : "root", u);
	snprintf(pwd_[npw], sizeof(pwd_[npw]), "/home/%s", pwn[npw]);
	pws[npw] = (struct passwd){.pw_name = pwn[npw], .pw_uid = u, .pw_gid = u + 100U, .pw_dir = pwd_[npw], .pw_shell = "/bin/sh"};
	npw++;
}

/* fault plan for the checkpoint system calls (C06) */
static int fault_at = -1, fault_kind, fault_count;	/* kind 0: crash, 1: ENOSPC, 2: EIO, 3: EINTR */
static int is_chk_fd[4096];
/* every checkpoint system call is numbered from the start of the session and logged; the FAULT op picks one */
static int
fault_here(const char *what)
{
	fault_count++;
	tprintf("SYSCALL %d %s\n", fault_count, what);
	if (fault_count == fault_at) {
		if (fault_kind == 0) {
			/* the process dies here: flush the trace first */
			tprintf("CRASH-AT %d %s\n", fault_count, what);
			if (TR && TR->p) { size_t o = 0; while (o < TR->n) { ssize_t n = syscall(SYS_write, 3, TR->p + o, TR->n - o); if (n <= 0) break; o += (size_t)n; } }
			_exit(137);
		}
		errno = fault_kind == 1 ? ENOSPC : fault_kind == 2 ? EIO : EINTR;
		tprintf("FAULT-AT %d %s errno=%d\n", fault_count, what, errno);
		return -1;
	}
	return 0;
}
static int
h_openat(int dfd, const char *fn, int fl, ...)
{
	mode_t m = 0;
	int fd;
	if (fl & O_CREAT) { va_list ap; va_start(ap, fl); m = va_arg(ap, mode_t); va_end(ap); }
	if (!((fl & O_CREAT) && !strncmp(fn, ".echsq_", 7))) return openat(dfd, fn, fl, m);
	if (fault_here("openat") < 0) return -1;
	fd = openat(dfd, fn, fl, m);
	if (fd >= 0 && fd < 4096) is_chk_fd[fd] = 1;
	return fd;
}
static int
h_renameat(int a, const char *x, int b, const char *y)
{
	int r;
	if (fault_here("renameat") < 0) return -1;
	r = renameat(a, x, b, y);
	if (!r) tprintf("RENAMED %s\n", y);
	return r;
}
static int
h_unlinkat(int a, const char *x, int f)
{
	return unlinkat(a, x, f);
}
static int
h_close(int fd)
{
	if (fd >= 0 && fd < 4096 && is_chk_fd[fd]) {
		is_chk_fd[fd] = 0;
		if (fault_here("close") < 0) { close(fd); return -1; }
	}
	return close(fd);
}
/* the serialiser lives in libechse (evical.o/fdprnt.h) and calls write(2) directly: interposed at link time */
ssize_t
write(int fd, const void *buf, size_t n)
{
	if (fd >= 0 && fd < 4096 && is_chk_fd[fd] && fault_here("write") < 0) return -1;
	return syscall(SYS_write, fd, buf, n);
}

static void h_nolog(int prio, const char *fmt, ...) { (void)prio; (void)fmt; }

/* a sanitizer report ends the process: hand over the trace so far (the driver reads it from fd 3) */
extern void __sanitizer_set_death_callback(void (*cb)(void)) __attribute__((weak));
static void
death_flush(void)
{
	if (TR && TR->p) { size_t o = 0; while (o < TR->n) { ssize_t n = syscall(SYS_write, 3, TR->p + o, TR->n - o); if (n <= 0) break; o += (size_t)n; } }
}

/* ---------------- session */
static char spool[256];

static void
do_submit(uid_t u, const char *ics, size_t len, size_t chunk)
{
	int sv[2];
	struct echs_cmdparam_s prm;
	ncred_t cr = {u, u + 100U, NULL, NULL};
	char rb[65536];
	ssize_t n;
	size_t tot = 0;

	memset(&prm, 0, sizeof(prm));
	if (socketpair(AF_UNIX, SOCK_STREAM, 0, sv) < 0) { tprintf("REPLY error socketpair\n"); return; }
	if (!chunk) chunk = len;
	/* one recv() delivers at most a buffer full */
	if (chunk > sizeof(bufs[0])) chunk = sizeof(bufs[0]);
	for (size_t off = 0; off < len; off += chunk) {
		size_t z = len - off < chunk ? len - off : chunk;
		/* like sock_data_cb: recv() into the connection's buffer, feed the chunk, run the command */
		char *blk = bufs[0];
		if (z > sizeof(bufs[0])) z = sizeof(bufs[0]);
		memcpy(blk, ics + off, z);
		switch (feed_cmd(&prm, blk, z)) {
		case ECHS_CMD_HTTP:
			(void)cmd_http(&theloop, sv[0], &prm.http, cr);
			off = len;
			break;
		case ECHS_CMD_ICAL:
			(void)cmd_ical(&theloop, sv[0], &prm.ical, cr);
			break;
		default:
			tprintf("UNKNOWN-COMMAND\n");
			off = len;
			break;
		}
		flush_spawn();
	}
	if (prm.cmd == ECHS_CMD_ICAL) {
		/* end of file on the socket: a last, empty read */
		if (feed_cmd(&prm, bufs[0], 0U) == ECHS_CMD_ICAL) (void)cmd_ical(&theloop, sv[0], &prm.ical, cr);
		flush_spawn();
	}
	shut_cmd(&prm);
	shutdown(sv[0], SHUT_WR);
	while ((n = recv(sv[1], rb + tot, sizeof(rb) - 1U - tot, MSG_DONTWAIT)) > 0) tot += (size_t)n;
	rb[tot] = '\0';
	close(sv[0]);
	close(sv[1]);
	/* summarise: number of REQUEST-STATUS lines with code, UIDs in order */
	tprintf("REPLY bytes=%zu", tot);
	for (const char *p = rb; (p = strstr(p, "REQUEST-STATUS:")); p += 15) {
		const char *u2 = NULL;
		/* the UID line precedes within the same VEVENT */
		for (const char *q = p; q > rb; q--) if (!strncmp(q, "\nUID:", 5)) { u2 = q + 5; break; }
		tprintf(" [%.*s %.3s]", u2 ? (int)strcspn(u2, "\n") : 1, u2 ? u2 : "?", p + 15);
	}
	tprintf("\n");
	{
		tprintf("BODY %zu\n%s\nENDBODY\n", tot, rb);
	}
}

static void
do_dump(void)
{
	tprintf("TABSIZE %zu\n", ztask_ht);
	for (size_t i = 0U; i < ztask_ht; i++) {
		_task_t t;
		if (!task_ht[i].oid) continue;
		t = task_ht[i].t;
		tprintf("TASK uid=%s owner=%d cur=%u,%u,%u,%u,%u,%u nsim=%zu active=%d at=%.3f u=%u wd=%s\n", obint_name(task_ht[i].oid), (int)echs_task_owner(t->t),
			(unsigned)t->cur.y, (unsigned)t->cur.m, (unsigned)t->cur.d, (unsigned)t->cur.H, (unsigned)t->cur.M, (unsigned)t->cur.S, t->nsim, t->w.active, t->w.active ? t->w.at : -1., t->dflt_cred.u, t->dflt_cred.wd ? t->dflt_cred.wd : "");
	}
	tprintf("ENDDUMP ntasks running=%zu\n", nchs);
}

unsigned
sut_uid_key(const char *uid, size_t len)
{
	return (unsigned)obint(uid, len);
}

double
sut_daemon_tstamp(sut_inst_t s)
{
	echs_instant_t i = {.u = 0ULL};
	i.y = s.y, i.m = s.m, i.d = s.d, i.H = s.H, i.M = s.M, i.S = s.S, i.ms = s.ms;
	return instant_to_tstamp(i);
}

/* Script:  one op per line
 *   USERS u1 u2 ...            synthetic passwd entries
 *   ME uid                      uid the daemon runs as (0 = root)
 *   NOW t                       set virtual time
 *   SUBMIT uid chunk len\n<len bytes>\n     request from peer uid, fed in chunks of `chunk` (0 = all)
 *   ADV t late                  run loop iterations until nothing is due before t; each wake-up happens `late` after the due time
 *   EXIT pid status             deliver SIGCHLD for pid
 *   EXITN k                     the (k mod n)-th of the n running children exits
 *   EXITALL                     deliver exits for all running children (oldest first)
 *   CHK                         cptim_cb (the 60 s checkpoint timer)
 *   FAULT k kind                the k-th checkpoint system call of the session fails (kind 1..3) or the process dies there (kind 0)
 *   TRACECALLS                  arm: log every checkpoint system call
 *   SHUT                        free_echsd() equivalent: final checkpoint
 *   RESTART                     final checkpoint, drop all tasks, read the queues again (stop + start of the daemon)
 *   RELOAD                      echsd_inject_queues() on the spool
 *   VTODOS                      from now on copy every execution request handed to the executor into the trace
 *   DUMP                        print the task table
 */
int
sut_daemon_session(const char *spooldir, const char *script, size_t len, sut_buf_t *out)
{
	const char *p = script, *const ep = script + len;
	struct _echsd_s ctx;

	TR = out;
	if (__sanitizer_set_death_callback) __sanitizer_set_death_callback(death_flush);
	signal(SIGPIPE, SIG_IGN);
	snprintf(spool, sizeof(spool), "%s", spooldir);
	echs_log = h_nolog;
	meself.uid = 0;
	meself.gid = 0;
	echsx = "/bin/true";
	if ((qdirfd = open(spooldir, O_RDONLY | O_DIRECTORY)) < 0) { tprintf("ERROR spool\n"); return -1; }
	ini_task_ht();
	memset(&ctx, 0, sizeof(ctx));
	ctx.loop = &theloop;
	vnow = 1577872800.0;
	add_user(0);

	while (p < ep) {
		const char *eol = memchr(p, '\n', (size_t)(ep - p)) ?: ep;
		char line[512];
		size_t ll = (size_t)(eol - p) < sizeof(line) - 1U ? (size_t)(eol - p) : sizeof(line) - 1U;

		memcpy(line, p, ll);
		line[ll] = '\0';
		p = eol < ep ? eol + 1 : ep;
		if (!strncmp(line, "USERS ", 6)) {
			for (char *q = line + 6; *q;) { add_user((uid_t)strtoul(q, &q, 10)); while (*q == ' ') q++; }
		} else if (!strncmp(line, "ME ", 3)) {
			meself.uid = (uid_t)atoi(line + 3);
		} else if (!strncmp(line, "NOW ", 4)) {
			vnow = atof(line + 4);
		} else if (!strncmp(line, "SUBMIT ", 7)) {
			unsigned u; size_t chunk, n;
			if (sscanf(line + 7, "%u %zu %zu", &u, &chunk, &n) != 3 || (size_t)(ep - p) < n) { tprintf("ERROR script\n"); break; }
			tprintf("SUBMIT t=%.4f peer=%u\n", vnow, u);
			do_submit((uid_t)u, p, n, chunk);
			/* a watcher armed for right now makes the real loop iterate at once */
			if (next_due() <= vnow) { loop_iteration(vnow + 0.0001); flush_spawn(); }
			p += n;
			if (p < ep && *p == '\n') p++;
		} else if (!strncmp(line, "ADV ", 4)) {
			double to, late = 0.001;
			sscanf(line + 4, "%lf %lf", &to, &late);
			if (late < 0.0005) late = 0.0005;
			for (int guard = 0; guard < 100000; guard++) {
				ev_tstamp nd = next_due();
				if (!(nd < to) || !(nd + late < to + late)) break;
				if (nd + late <= vnow) {
					/* already past it (held up): wake up right now */
					loop_iteration(vnow + 0.0001);
				} else {
					loop_iteration(nd + late);
				}
				flush_spawn();
			}
			if (vnow < to) vnow = to;
			tprintf("TIME %.4f\n", vnow);
		} else if (!strncmp(line, "EXITALL", 7)) {
			while (nchs) {
				ev_child *c = chs[0];
				tprintf("EXIT t=%.4f pid=%d\n", vnow, c->pid);
				c->rpid = c->pid; c->rstatus = 0;
				c->cb(&theloop, c, 0);
			}
		} else if (!strncmp(line, "EXITN ", 6)) {
			/* the k-th (mod the number) of the running children exits */
			if (nchs) {
				ev_child *c = chs[(size_t)strtoul(line + 6, NULL, 10) % nchs];
				tprintf("EXIT t=%.4f pid=%d\n", vnow, c->pid);
				c->rpid = c->pid; c->rstatus = 0;
				c->cb(&theloop, c, 0);
			}
		} else if (!strncmp(line, "EXIT ", 5)) {
			int pid = 0, st = 0, found = 0;
			sscanf(line + 5, "%d %d", &pid, &st);
			for (size_t i = 0; i < nchs; i++) if (chs[i]->pid == pid) {
				ev_child *c = chs[i];
				tprintf("EXIT t=%.4f pid=%d\n", vnow, pid);
				c->rpid = pid; c->rstatus = st;
				c->cb(&theloop, c, 0);
				found = 1;
				break;
			}
			if (!found) tprintf("EXIT-UNKNOWN pid=%d\n", pid);
		} else if (!strncmp(line, "CHK", 3)) {
			for (int fd = 0; fd < 4096; fd++) is_chk_fd[fd] = 0;
			cptim_cb(&theloop, NULL, 0);
			tprintf("CHK-DONE\n");
		} else if (!strncmp(line, "FAULT ", 6)) {
			sscanf(line + 6, "%d %d", &fault_at, &fault_kind);
		} else if (!strncmp(line, "TRACECALLS", 10)) {
			;	/* (always on) */
		} else if (!strncmp(line, "SHUT", 4)) {
			chkpnt();
			tprintf("SHUT-DONE\n");
		} else if (!strncmp(line, "RESTART", 7)) {
			/* orderly stop and start within the process: final checkpoint of everybody, all tasks dropped
			 * (executions still running carry on unsupervised), queues read again */
			for (size_t i = 0U; i < ztask_ht; i++) if (task_ht[i].oid) add_chkpnt(echs_task_owner(task_ht[i].t->t));
			chkpnt();
			for (size_t i = 0U; i < ztask_ht; i++) if (task_ht[i].oid) {
				_task_t t = task_ht[i].t;
				ev_periodic_stop(&theloop, &t->w);
				for (size_t j = 0U; j < nchs; j++) if (chs[j]->data == t) chs[j]->data = NULL;
				free_task(t);
			}
			echsd_inject_queues(&ctx, spooldir);
			if (next_due() <= vnow) { loop_iteration(vnow + 0.0001); flush_spawn(); }
			tprintf("RESTART t=%.4f\n", vnow);
		} else if (!strncmp(line, "RELOAD", 6)) {
			echsd_inject_queues(&ctx, spooldir);
			tprintf("RELOAD-DONE\n");
		} else if (!strncmp(line, "VTODOS", 6)) {
			trace_vtodo = 1;
		} else if (!strncmp(line, "DUMP", 4)) {
			do_dump();
		}
	}
	return 0;
}
