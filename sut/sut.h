/* Plain-C ABI between the property drivers (which include no echse header)
 * and the code under test.  All times are int64 milliseconds since
 * 1970-01-01T00:00:00Z on the proleptic Gregorian calendar unless a struct
 * with broken-down fields is used. */
#ifndef VERIF_SUT_H
#define VERIF_SUT_H
#include <stdint.h>
#include <stddef.h>
#ifdef __cplusplus
extern "C" {
#endif

/* ---- C19: bitint containers.  type: 0 bui31, 1 bui63, 2 bi31, 3 bi63, 4 bi383, 5 bi447 */
int sut_bi_eval(int type, const int *vals, int n, int *out, int maxout, int *hasbits);
/* membership predicate where the code offers one (bui31, bi31): 0/1, or -1 if none */
int sut_bi_member(int type, const int *vals, int n, int x);

/* ---- broken-down instant as echse holds it */
typedef struct {
	int y, m, d, H, M, S, ms;  /* H==255: all-day; ms==1023: all-sec */
} sut_inst_t;

#define SUT_ALL_DAY 255
#define SUT_ALL_SEC 1023

/* ---- C08 */
sut_inst_t sut_instant_fixup(sut_inst_t);
int64_t sut_instant_diff(sut_inst_t end, sut_inst_t beg);            /* ms */
sut_inst_t sut_instant_add(sut_inst_t bas, int64_t add_ms);
int64_t sut_instant_to_epoch(sut_inst_t);                          /* seconds */
sut_inst_t sut_epoch_to_instant(int64_t);
int sut_instant_lt(sut_inst_t, sut_inst_t);
int sut_instant_le(sut_inst_t, sut_inst_t);
int sut_instant_eq(sut_inst_t, sut_inst_t);

/* ---- C20 */
void sut_instant_sort(sut_inst_t *a, size_t n);
typedef struct { sut_inst_t from; int64_t dur; uint32_t oid; uint32_t serial; } sut_event_t;
void sut_event_sort(sut_event_t *a, size_t n);

/* ---- C18: text forms.  All strings NUL-terminated; return consumed length or -1 */
int sut_dt_strp(const char *s, sut_inst_t *out);
int sut_dt_strf(char *buf, size_t bsz, sut_inst_t i);
int sut_dt_strf_ical(char *buf, size_t bsz, sut_inst_t i);
int sut_idiff_strp(const char *s, int64_t *out_ms);
int sut_idiff_strf(char *buf, size_t bsz, int64_t ms);

/* ---- C15: scales.  scale ids are echse's enum values 0..N-1 */
int sut_scale_count(void);
const char *sut_scale_name(int scale);
/* convert instant given in scale `from` to scale `to`; returns 0 and *out nul (y=0) when rejected */
sut_inst_t sut_rescale(sut_inst_t i, int from, int to);
sut_inst_t sut_rescale_zoned(sut_inst_t i, int from, int to, const char *zone);   /* .y == -2: zone lost */
int sut_scale_ndim(int scale, int y, int m);
int sut_scale_wday(int scale, sut_inst_t i);   /* 1=Mon..7=Sun as echse reports */

/* ---- streams (C01, C02, C03, C05, C09, C10, C16, C17) */
/* Parse an iCalendar text fed as the given chunk sizes (nchunks==0: one chunk).
 * Every instruction pulled is dumped canonically into out (see sut_lib.c).
 * nocc: number of occurrences of each task stream to append to the dump.
 * returns number of instructions, or <0 on error. */
typedef struct sut_buf { char *p; size_t n, cap; } sut_buf_t;
void sut_buf_free(sut_buf_t *);
int sut_parse_dump(const char *ics, size_t len, const size_t *chunks, size_t nchunks,
		   int nocc, int flags, sut_buf_t *out);
#define SUT_F_EXACT_CHUNKS 1   /* copy each chunk to an exact-size heap block */
#define SUT_F_NO_ATTRS 2       /* dump occurrences only */
#define SUT_F_PEEKS 4          /* interleave extra peeks between pops */
#define SUT_F_DUR 8            /* print durations with the occurrences */

/* Open task streams from ics text, keep handles.  Returns handle count. */
typedef struct sut_strm sut_strm_t;
int sut_open_streams(const char *ics, size_t len, sut_strm_t **out, int maxout);
/* next (pop=0) / pop (pop=1): returns 1 and fills, or 0 at end of stream */
int sut_strm_next(sut_strm_t *, int pop, sut_inst_t *from, int64_t *dur_ms, uint32_t *oid);
sut_strm_t *sut_strm_clone(sut_strm_t *);
sut_strm_t *sut_strm_mux(sut_strm_t **s, int n);   /* consumes the constituents */
void sut_strm_free(sut_strm_t *);
/* serialise the task of stream handle i back to ical text */
int sut_task_icalify(sut_strm_t *, sut_buf_t *out);

/* direct rule interface: RRULE text + DTSTART -> stream */
sut_strm_t *sut_rrule_stream(const char *rrule, sut_inst_t dtstart);

/* ---- C07 tz */
int sut_tz_open(const char *zone);             /* returns handle >=0 or -1 */
sut_inst_t sut_tz_utc(sut_inst_t local, int zh);
sut_inst_t sut_tz_loc(sut_inst_t utc, int zh);
int sut_tz_offs(sut_inst_t utc, int zh);       /* seconds */

/* C05: serialise after K pops and re-read, see sut_strm.c */
int sut_roundtrip(const char *ics, size_t len, int k, int nocc, sut_buf_t *out);

/* C03: mux session, see sut_strm.c */
int sut_mux_session(const char *ics, size_t len, const char *ops, int cap, int mode, sut_buf_t *out);

/* C09: direct filler call on an exact-size block; -1 if the rule is not accepted */
int sut_fill(const char *rrule, sut_inst_t proto, int *count_out);

/* daemon harness (sut_echsd.c): run a scripted session against the spool directory, returns the trace */
int sut_daemon_session(const char *spooldir, const char *script, size_t len, sut_buf_t *out);
double sut_daemon_tstamp(sut_inst_t);
/* the 32-bit key the daemon's task table files a UID under (input generation only) */
unsigned sut_uid_key(const char *uid, size_t len);

uint32_t sut_hash(const char *s, size_t n);
void sut_reset(void);

#ifdef __cplusplus
}
#endif
#endif
