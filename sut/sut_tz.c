/* C07 shim: time zone conversions of tzob.c */
#include <string.h>
#include "instant.h"
#include "tzob.h"
#include "sut.h"

static inline echs_instant_t
to_i(sut_inst_t s)
{
	echs_instant_t i = {.u = 0ULL};
	i.y = s.y, i.m = s.m, i.d = s.d, i.H = s.H, i.M = s.M, i.S = s.S, i.ms = s.ms;
	return i;
}

static inline sut_inst_t
fr_i(echs_instant_t i)
{
	return (sut_inst_t){i.y, i.m, i.d, i.H, i.M, i.S, i.ms};
}

int sut_tz_open(const char *zone) { echs_tzob_t z = echs_tzob(zone, strlen(zone)); return z ? (int)z : -1; }
sut_inst_t sut_tz_utc(sut_inst_t local, int zh) { return fr_i(echs_instant_utc(to_i(local), (echs_tzob_t)zh)); }
sut_inst_t sut_tz_loc(sut_inst_t utc, int zh) { return fr_i(echs_instant_loc(to_i(utc), (echs_tzob_t)zh)); }
int sut_tz_offs(sut_inst_t utc, int zh) { return echs_tzob_offs((echs_tzob_t)zh, to_i(utc), 0); }
