/* C09 shim: call the rrul_fill_* functions the way refill() in evical.c does,
 * but on an exact 128-element heap block so that any write beyond what the
 * caller provides is an ASan report instead of landing in slack space. */
#include <stdlib.h>
#include <string.h>
#include "evical.h"
#include "evrrul.h"
#include "sut.h"

/* returns the filler's result, or -1 if the rule text is not accepted */
int
sut_fill(const char *rrule, sut_inst_t proto, int *count_out)
{
	struct rrulsp_s rr = echs_read_rrul(rrule, strlen(rrule));
	echs_instant_t p = {.u = 0ULL};
	echs_instant_t *cch;
	size_t n;

	if (rr.freq == FREQ_NONE) {
		return -1;
	}
	p.y = proto.y, p.m = proto.m, p.d = proto.d;
	p.H = proto.H, p.M = proto.M, p.S = proto.S, p.ms = proto.ms;
	cch = malloc(2U * GRP_CCH_OFF * sizeof(*cch));
	memset(cch, 0, 2U * GRP_CCH_OFF * sizeof(*cch));
	for (size_t j = 0U; j < GRP_CCH_OFF; j++) {
		cch[j] = p;
	}
	*count_out = rr.count;
	switch (rr.freq) {
	case FREQ_YEARLY: n = rrul_fill_yly(cch, GRP_CCH_OFF, &rr); break;
	case FREQ_MONTHLY: n = rrul_fill_mly(cch, GRP_CCH_OFF, &rr); break;
	case FREQ_WEEKLY: n = rrul_fill_wly(cch, GRP_CCH_OFF, &rr); break;
	case FREQ_DAILY: n = rrul_fill_dly(cch, GRP_CCH_OFF, &rr); break;
	case FREQ_HOURLY: n = rrul_fill_Hly(cch, GRP_CCH_OFF, &rr); break;
	case FREQ_MINUTELY: n = rrul_fill_Mly(cch, GRP_CCH_OFF, &rr); break;
	case FREQ_SECONDLY: n = rrul_fill_Sly(cch, GRP_CCH_OFF, &rr); break;
	default: n = 0U; break;
	}
	free(cch);
	return (int)n;
}
