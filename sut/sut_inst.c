/* shims for instant arithmetic (C08), text forms (C18), sorting (C20) */
#include <string.h>
#include <stdlib.h>
#include <time.h>
#include "instant.h"
#include "event.h"
#include "dt-strpf.h"
#include "tzob.h"
#include "sut.h"

static inline echs_instant_t
to_i(sut_inst_t s)
{
	echs_instant_t i = {.u = 0ULL};
	i.y = s.y, i.m = s.m, i.d = s.d, i.H = s.H, i.M = s.M, i.S = s.S, i.ms = s.ms;
	return i;
}

static inline sut_inst_t
fr_i(echs_instant_t i)
{
	return (sut_inst_t){i.y, i.m, i.d, i.H, i.M, i.S, i.ms};
}

sut_inst_t sut_instant_fixup(sut_inst_t s) { return fr_i(echs_instant_fixup(to_i(s))); }
int64_t sut_instant_diff(sut_inst_t end, sut_inst_t beg) { return echs_instant_diff(to_i(end), to_i(beg)).d; }
sut_inst_t sut_instant_add(sut_inst_t bas, int64_t add) { return fr_i(echs_instant_add(to_i(bas), (echs_idiff_t){add})); }
int64_t sut_instant_to_epoch(sut_inst_t s) { return (int64_t)echs_instant_to_epoch(to_i(s)); }
sut_inst_t sut_epoch_to_instant(int64_t t) { return fr_i(epoch_to_echs_instant((time_t)t)); }
int sut_instant_lt(sut_inst_t a, sut_inst_t b) { return echs_instant_lt_p(to_i(a), to_i(b)); }
int sut_instant_le(sut_inst_t a, sut_inst_t b) { return echs_instant_le_p(to_i(a), to_i(b)); }
int sut_instant_eq(sut_inst_t a, sut_inst_t b) { return echs_instant_eq_p(to_i(a), to_i(b)); }

void
sut_instant_sort(sut_inst_t *a, size_t n)
{
	/* exact-size heap block so that any overrun is an ASan report */
	echs_instant_t *v = malloc(n * sizeof(*v) + (n == 0));
	for (size_t i = 0; i < n; i++) v[i] = to_i(a[i]);
	echs_instant_sort(v, n);
	for (size_t i = 0; i < n; i++) a[i] = fr_i(v[i]);
	free(v);
}

void
sut_event_sort(sut_event_t *a, size_t n)
{
	echs_event_t *v = malloc(n * sizeof(*v) + (n == 0));
	for (size_t i = 0; i < n; i++) {
		memset(&v[i], 0, sizeof(v[i]));
		v[i].from = to_i(a[i].from);
		v[i].dur.d = a[i].dur;
		v[i].oid = a[i].oid;
		/* the serial travels in the group stamp, which sorting must carry along */
		v[i].grp.u = a[i].serial;
	}
	echs_event_sort(v, n);
	for (size_t i = 0; i < n; i++) {
		a[i].from = fr_i(v[i].from);
		a[i].dur = v[i].dur.d;
		a[i].oid = v[i].oid;
		a[i].serial = (uint32_t)v[i].grp.u;
	}
	free(v);
}

int
sut_dt_strp(const char *s, sut_inst_t *out)
{
	char *on = NULL;
	echs_instant_t i = dt_strp(s, &on, strlen(s));
	*out = fr_i(i);
	if (on == NULL) return -1;
	return (int)(on - s);
}

int sut_dt_strf(char *buf, size_t bsz, sut_inst_t i) { return (int)dt_strf(buf, bsz, to_i(i)); }
int sut_dt_strf_ical(char *buf, size_t bsz, sut_inst_t i) { return (int)dt_strf_ical(buf, bsz, to_i(i)); }

int
sut_idiff_strp(const char *s, int64_t *out)
{
	char *on = NULL;
	echs_idiff_t d = idiff_strp(s, &on, strlen(s));
	*out = d.d;
	if (on == NULL) return -1;
	return (int)(on - s);
}

int sut_idiff_strf(char *buf, size_t bsz, int64_t ms) { return (int)idiff_strf(buf, bsz, (echs_idiff_t){ms}); }
